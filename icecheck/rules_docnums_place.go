package main

// DOCNUMS-SHAPE, second form of the running counter: not an SSA value threaded
// through parameters and results, but a *place* - a uint64 field of a cursor
// struct (`cur.newDocNum`) that the per-document function and small helper
// methods (`cur.add`, `cur.number`) read and advance through a pointer.  The
// obligations are the same; they are decided by walking every path through one
// iteration in program order with the counter kept symbolically as
// "value at the start of the iteration + delta".

import (
	"fmt"
	"go/token"
	"go/types"

	"golang.org/x/tools/go/ssa"
)

type ctrPlace struct {
	root  ssa.Value // pointer to the struct: a parameter, or the Alloc of a local
	field string
}

func (pl ctrPlace) isAddr(a ssa.Value) bool {
	fa, ok := a.(*ssa.FieldAddr)
	if !ok || fa.X != pl.root {
		return false
	}
	_, f := fieldAddrInfo(fa)
	return f != nil && f.Name() == pl.field
}

// placeOfLoad: v is a load of root.field with root a pointer parameter or a local struct.
func placeOfLoad(v ssa.Value) (ctrPlace, bool) {
	ld, ok := v.(*ssa.UnOp)
	if !ok || ld.Op != token.MUL {
		return ctrPlace{}, false
	}
	fa, ok := ld.X.(*ssa.FieldAddr)
	if !ok {
		return ctrPlace{}, false
	}
	switch fa.X.(type) {
	case *ssa.Parameter, *ssa.Alloc:
	default:
		return ctrPlace{}, false
	}
	_, f := fieldAddrInfo(fa)
	if f == nil {
		return ctrPlace{}, false
	}
	if b, ok := f.Type().Underlying().(*types.Basic); !ok || b.Kind() != types.Uint64 {
		return ctrPlace{}, false
	}
	return ctrPlace{fa.X, f.Name()}, true
}

// placeWalker executes the instructions of a path symbolically for one place.
type placeWalker struct {
	c       *Ctx
	pl      ctrPlace
	delta   int
	sym     map[ssa.Value]int // loads of the place (and +k of them): value relative to the start
	unknown string            // an effect on the place that cannot be summarised
	bad     string
	depth   int
}

func (w *placeWalker) symOf(v ssa.Value) (int, bool) {
	v = stripConv(v)
	if d, ok := w.sym[v]; ok {
		return d, true
	}
	if x, k, ok := addConst(v); ok {
		if d, ok := w.symOf(x); ok {
			return d + int(k), true
		}
	}
	return 0, false
}

// errClass: how the path continues after the call with respect to its error
// result: 1 = tested nil, 2 = tested non-nil, 0 = not tested on the path.
func errClassOnPath(call *ssa.Call, path []*ssa.BasicBlock, from int) int {
	var errv ssa.Value
	if isErrorType(call.Type()) {
		errv = call
	} else if refs := call.Referrers(); refs != nil {
		for _, r := range *refs {
			if ex, ok := r.(*ssa.Extract); ok && isErrorType(ex.Type()) {
				errv = ex
			}
		}
	}
	if errv == nil {
		return 0
	}
	for i := from; i+1 < len(path); i++ {
		b := path[i]
		ifi, ok := b.Instrs[len(b.Instrs)-1].(*ssa.If)
		if !ok {
			continue
		}
		bin, ok := ifi.Cond.(*ssa.BinOp)
		if !ok || (bin.Op != token.NEQ && bin.Op != token.EQL) {
			continue
		}
		x, y := bin.X, bin.Y
		if isNilConst(x) {
			x, y = y, x
		}
		if !isNilConst(y) || resolveOnPath(x, nil, path[:i+1]) != errv && x != errv {
			continue
		}
		trueEdge := path[i+1] == b.Succs[0]
		if (bin.Op == token.NEQ) == trueEdge {
			return 2
		}
		return 1
	}
	return 0
}

func (w *placeWalker) block(path []*ssa.BasicBlock, i int) {
	for _, ins := range path[i].Instrs {
		w.instr(ins, path, i)
		if w.bad != "" || w.unknown != "" {
			return
		}
	}
}

func (w *placeWalker) call(call *ssa.Call, path []*ssa.BasicBlock, i int) {
	pi := -1
	for j, a := range call.Call.Args {
		if a == w.pl.root {
			pi = j
		}
	}
	if call.Call.IsInvoke() {
		if call.Call.Value == w.pl.root {
			w.unknown = "the cursor is the receiver of a dynamic call at " + w.c.pos(call.Pos())
		}
		if pi >= 0 {
			w.unknown = "the cursor is handed to a dynamic call at " + w.c.pos(call.Pos())
		}
		return
	}
	if pi < 0 {
		return
	}
	callee := call.Call.StaticCallee()
	if callee == nil || callee.Blocks == nil || pi >= len(callee.Params) {
		w.unknown = "the cursor is handed to a function without a body at " + w.c.pos(call.Pos())
		return
	}
	eff := w.c.placeEffect(callee, pi, w.pl.field, w.depth+1)
	if !eff.known {
		w.unknown = fnName(callee) + ": " + eff.why
		return
	}
	set := map[int]bool{}
	switch errClassOnPath(call, path, i) {
	case 1:
		set = eff.ok
	case 2:
		set = eff.err
	default:
		for d := range eff.ok {
			set[d] = true
		}
		for d := range eff.err {
			set[d] = true
		}
	}
	if len(set) == 0 {
		return // infeasible continuation (e.g. the callee never fails): nothing to account for
	}
	if len(set) != 1 {
		w.bad = fmt.Sprintf("%s advances the running counter by different amounts on paths with the same outcome (%v)", fnName(callee), keysOfIntSet(set))
		return
	}
	for d := range set {
		w.delta += d
	}
}

func keysOfIntSet(m map[int]bool) []int {
	var out []int
	for k := range m {
		out = append(out, k)
	}
	for i := range out {
		for j := i + 1; j < len(out); j++ {
			if out[j] < out[i] {
				out[i], out[j] = out[j], out[i]
			}
		}
	}
	return out
}

type placeEff struct {
	ok, err map[int]bool // counter delta on returns that (may) report success / failure
	known   bool
	why     string
}

// fnPaths: the acyclic paths from the entry of fn to its returns (cycles cut).
func fnPaths(fn *ssa.Function, limit int) ([][]*ssa.BasicBlock, bool) {
	var out [][]*ssa.BasicBlock
	var cur []*ssa.BasicBlock
	on := map[*ssa.BasicBlock]bool{}
	overflow := false
	var dfs func(b *ssa.BasicBlock)
	dfs = func(b *ssa.BasicBlock) {
		if overflow || on[b] {
			return
		}
		on[b] = true
		cur = append(cur, b)
		if _, ok := b.Instrs[len(b.Instrs)-1].(*ssa.Return); ok {
			out = append(out, append([]*ssa.BasicBlock{}, cur...))
			if len(out) > limit {
				overflow = true
			}
		}
		for _, s := range b.Succs {
			dfs(s)
		}
		cur = cur[:len(cur)-1]
		on[b] = false
	}
	if len(fn.Blocks) > 0 {
		dfs(fn.Blocks[0])
	}
	return out, !overflow
}

// touchesPlace: the block reads/writes the place through a store or hands the root on.
func touchesPlace(b *ssa.BasicBlock, pl ctrPlace) bool {
	for _, ins := range b.Instrs {
		switch x := ins.(type) {
		case *ssa.Store:
			if pl.isAddr(x.Addr) {
				return true
			}
		case ssa.CallInstruction:
			cc := x.Common()
			if cc.Value == pl.root {
				return true
			}
			for _, a := range cc.Args {
				if a == pl.root {
					return true
				}
			}
		}
	}
	return false
}

// placeEffect: by how much a call of fn advances param[pi].field, separately for
// the returns that report success and those that report an error.
func (c *Ctx) placeEffect(fn *ssa.Function, pi int, field string, depth int) placeEff {
	if depth > 4 {
		return placeEff{why: "call chain too deep"}
	}
	pl := ctrPlace{fn.Params[pi], field}
	for _, b := range fn.Blocks {
		if isLoopHeader(b) {
			for lb := range loopBody(b) {
				if touchesPlace(lb, pl) {
					return placeEff{why: "the running counter is modified inside a loop at " + c.pos(lb.Instrs[0].Pos())}
				}
			}
		}
	}
	paths, complete := fnPaths(fn, 2000)
	if !complete {
		return placeEff{why: "too many paths"}
	}
	eff := placeEff{ok: map[int]bool{}, err: map[int]bool{}, known: true}
	res := fn.Signature.Results()
	errIdx := -1
	if res.Len() > 0 && isErrorType(res.At(res.Len()-1).Type()) {
		errIdx = res.Len() - 1
	}
	for _, p := range paths {
		w := &placeWalker{c: c, pl: pl, sym: map[ssa.Value]int{}, depth: depth}
		for i := range p {
			w.block(p, i)
			if w.bad != "" || w.unknown != "" {
				break
			}
		}
		if w.unknown != "" {
			return placeEff{why: w.unknown}
		}
		if w.bad != "" {
			return placeEff{why: w.bad}
		}
		last := p[len(p)-1]
		ret := last.Instrs[len(last.Instrs)-1].(*ssa.Return)
		if errIdx < 0 || errIdx >= len(ret.Results) {
			eff.ok[w.delta] = true
			continue
		}
		ev := resolveOnPath(resolveLoad(ret.Results[errIdx]), nil, p)
		switch {
		case isNilConst(ev):
			eff.ok[w.delta] = true
		case pathTestsNonNil(p, ev):
			eff.err[w.delta] = true
		default:
			if _, isPhi := ev.(*ssa.Phi); isPhi {
				eff.ok[w.delta], eff.err[w.delta] = true, true
			} else if errClassOfValue(ev, p) == 1 {
				eff.ok[w.delta] = true
			} else {
				eff.ok[w.delta], eff.err[w.delta] = true, true
			}
		}
	}
	return eff
}

// pathTestsNonNil: the path crosses the edge on which v != nil.
func pathTestsNonNil(path []*ssa.BasicBlock, v ssa.Value) bool {
	return errClassOfValue(v, path) == 2
}

func errClassOfValue(v ssa.Value, path []*ssa.BasicBlock) int {
	for i := 0; i+1 < len(path); i++ {
		b := path[i]
		ifi, ok := b.Instrs[len(b.Instrs)-1].(*ssa.If)
		if !ok {
			continue
		}
		bin, ok := ifi.Cond.(*ssa.BinOp)
		if !ok || (bin.Op != token.NEQ && bin.Op != token.EQL) {
			continue
		}
		x, y := bin.X, bin.Y
		if isNilConst(x) {
			x, y = y, x
		}
		if !isNilConst(y) || (x != v && resolveOnPath(x, nil, path[:i+1]) != v) {
			continue
		}
		trueEdge := path[i+1] == b.Succs[0]
		if (bin.Op == token.NEQ) == trueEdge {
			return 2
		}
		return 1
	}
	return 0
}

// placeIterCheck: every path through one iteration of the loop with header hdr
// stores exactly once into table[idx]: the counter as it was at the start of the
// iteration, which the path then advances by exactly one - or, when drops is
// given, the dropped sentinel on the drops.Contains(idx) edge with the counter
// unchanged.  Returns the number of paths, a violation, an undecided reason.
func placeIterCheck(c *Ctx, fn *ssa.Function, hdr *ssa.BasicBlock, table, idx ssa.Value, pl ctrPlace, drops *ssa.Parameter) (int, string, string) {
	body := loopBody(hdr)
	entry := hdr.Succs[0]
	paths, complete := iterPaths(hdr, entry, body, 4000)
	if !complete {
		return 0, "", "too many paths through the loop"
	}
	np, bad := 0, ""
	for _, p := range paths {
		if p.exit {
			last := p.blocks[len(p.blocks)-1]
			ret, ok := last.Instrs[len(last.Instrs)-1].(*ssa.Return)
			if !ok || len(ret.Results) == 0 || isNilConst(resolveLoad(ret.Results[len(ret.Results)-1])) {
				if len(p.blocks) >= 2 || !ok {
					bad = "the loop can be left before every entry of the table was handled (exit through " + blockList(p.blocks) + "): the remaining entries keep the value 0, which is a valid document number"
				}
			}
			continue
		}
		np++
		w := &placeWalker{c: c, pl: pl, sym: map[ssa.Value]int{}}
		// the header itself belongs to the iteration (a range loop computes its index there)
		full := append([]*ssa.BasicBlock{hdr}, p.blocks...)
		type tstore struct {
			st    *ssa.Store
			delta int
			known bool
		}
		var stores []tstore
		for i, b := range full {
			// instruction by instruction: a value stored into the table is judged against the counter at that time
			for _, ins := range b.Instrs {
				if x, ok := ins.(*ssa.Store); ok {
					if ia, ok := x.Addr.(*ssa.IndexAddr); ok && ia.X == table {
						d, known := w.symOf(x.Val)
						stores = append(stores, tstore{x, d, known})
						if ia.Index != idx {
							bad = "store into the table at an index other than the loop's document index at " + c.pos(x.Pos())
						}
						continue
					}
				}
				w.instr(ins, full, i)
				if w.bad != "" || w.unknown != "" {
					break
				}
			}
			if w.bad != "" || w.unknown != "" {
				break
			}
		}
		if w.unknown != "" {
			return np, "", w.unknown
		}
		if w.bad != "" {
			bad = w.bad
			continue
		}
		if len(stores) != 1 {
			bad = fmt.Sprintf("a path through the loop body stores %d times into table[docNum] (blocks %s)", len(stores), blockList(p.blocks))
			continue
		}
		st := stores[0]
		switch {
		case isDocDroppedConst(st.st.Val):
			if drops == nil {
				bad = "the fill loop stores the dropped sentinel"
			} else {
				if w.delta != 0 {
					bad = "the dropped-document path changes the running counter"
				}
				if !pathTakesContainsTrue(p.blocks, drops, idx) {
					bad = "the dropped sentinel is stored on a path that is not the drops.Contains(docNum) edge"
				}
			}
		case st.known:
			if st.delta != 0 {
				bad = fmt.Sprintf("table[docNum] is assigned the running counter %+d, not the counter itself", st.delta)
			} else if w.delta != 1 {
				bad = fmt.Sprintf("a surviving document does not advance the running counter by exactly one (%+d)", w.delta)
			}
			if drops != nil && pathTakesContainsTrue(p.blocks, drops, idx) {
				bad = "a document found in the drops bitmap is given a new number"
			}
		default:
			bad = "table[docNum] is assigned " + exprSig(st.st.Val, 0) + ", neither the dropped sentinel nor the running counter"
		}
	}
	return np, bad, ""
}

// instr: one instruction of the walk (the block form loops over this).
func (w *placeWalker) instr(ins ssa.Instruction, path []*ssa.BasicBlock, i int) {
	switch x := ins.(type) {
	case *ssa.UnOp:
		if x.Op == token.MUL && w.pl.isAddr(x.X) {
			w.sym[x] = w.delta
		}
	case *ssa.Store:
		if w.pl.isAddr(x.Addr) {
			d, ok := w.symOf(x.Val)
			if !ok {
				w.bad = "the running counter is assigned " + exprSig(x.Val, 0) + " at " + w.c.pos(x.Pos()) + ", not a value derived from itself"
				return
			}
			w.delta = d
		}
	case *ssa.FieldAddr:
		if w.pl.isAddr(x) {
			if refs := x.Referrers(); refs != nil {
				for _, r := range *refs {
					switch rr := r.(type) {
					case *ssa.UnOp, *ssa.DebugRef:
					case *ssa.Store:
						if rr.Addr != ssa.Value(x) {
							w.unknown = "the address of the running counter is stored at " + w.c.pos(rr.Pos())
						}
					default:
						w.unknown = "the address of the running counter is handed on at " + w.c.pos(x.Pos())
					}
				}
			}
		}
	case *ssa.Call:
		w.call(x, path, i)
	case *ssa.Defer:
		for _, a := range x.Call.Args {
			if a == w.pl.root {
				w.unknown = "the cursor is handed to a deferred call at " + w.c.pos(x.Pos())
			}
		}
	case *ssa.Go:
		for _, a := range x.Call.Args {
			if a == w.pl.root {
				w.unknown = "the cursor is handed to a concurrent call at " + w.c.pos(x.Pos())
			}
		}
	case *ssa.MakeClosure:
		for _, bv := range x.Bindings {
			if bv == w.pl.root {
				w.unknown = "the cursor is captured by a closure at " + w.c.pos(x.Pos())
			}
		}
	}
}

// placeFillLoop: the loop with header hdr runs idx over 0..len(table)-1 (or the
// segment's document count) and is a sequential fill from the place.
func placeFillLoop(c *Ctx, fn *ssa.Function, hdr *ssa.BasicBlock, table ssa.Value, pl ctrPlace, needLen bool) bool {
	ifi, ok := hdr.Instrs[len(hdr.Instrs)-1].(*ssa.If)
	if !ok {
		return false
	}
	bin, ok := ifi.Cond.(*ssa.BinOp)
	if !ok || bin.Op != token.LSS || !inductionFromZero(bin.X, hdr) {
		return false
	}
	bound := false
	if xx, name, ok := lenOrCapOf(bin.Y); ok && name == "len" && xx == table {
		bound = true
	}
	if _, ok := numDocsOf(bin.Y); ok && !needLen {
		bound = true
	}
	if !bound {
		return false
	}
	np, bad, und := placeIterCheck(c, fn, hdr, table, bin.X, pl, nil)
	return np > 0 && bad == "" && und == ""
}

// placeFiller: fn(cursor, table) whose only effect on cursor.field is one
// sequential fill loop over the whole of its table parameter.  Returns that
// parameter.
func placeFiller(c *Ctx, fn *ssa.Function, pi int, field string) *ssa.Parameter {
	if fn == nil || fn.Blocks == nil || pi >= len(fn.Params) {
		return nil
	}
	pl := ctrPlace{fn.Params[pi], field}
	var loopHdr *ssa.BasicBlock
	for _, b := range fn.Blocks {
		if isLoopHeader(b) {
			if loopHdr != nil {
				return nil
			}
			loopHdr = b
		}
	}
	if loopHdr == nil {
		return nil
	}
	body := loopBody(loopHdr)
	for _, b := range fn.Blocks {
		if !body[b] && touchesPlace(b, pl) {
			return nil
		}
	}
	for _, tp := range paramsOfType(fn, "[]uint64") {
		if placeFillLoop(c, fn, loopHdr, tp, pl, true) {
			return tp
		}
	}
	return nil
}
