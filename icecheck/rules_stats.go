package main

// C16 — collection statistics: unit discipline and lane separation.

import (
	"fmt"
	"go/constant"
	"go/token"
	"go/types"
	"sort"
	"strings"

	"golang.org/x/tools/go/ssa"
)

// mapOriginProv labels every map by the place it was made.
func (c *Ctx) mapOriginProv() *prov {
	h := provHooks{}
	h.value = func(v ssa.Value) (labelSet, bool) {
		if mm, ok := v.(*ssa.MakeMap); ok {
			return lbl("M:"+fnName(mm.Parent())+":"+mm.Name(), "map made at "+c.pos(mm.Pos())), true
		}
		return nil, false
	}
	h.call = func(call *ssa.Call, idx int) (labelSet, bool) {
		sc := call.Call.StaticCallee()
		if sc != nil && !c.inRoot(sc) {
			return lbl("External", funcFullName(sc)), true
		}
		return nil, false
	}
	return newProv(c, h)
}

// statParams: the indexes of persistFields' document-count and term-frequency
// map parameters, identified by the record they are written into: the
// statistics record is the writeUvarints call whose two values are lookups in
// two map parameters — first the document count, then the frequency sum (the
// loader stores them, in that order, into the fields CollectionStats reads as
// docCount and sumTotalTermFreq).
func (c *Ctx) statParams() (docs, freq int, site ssa.CallInstruction) {
	pf := c.MustFn("persistFields")
	wu := c.MustFn("writeUvarints")
	docs, freq = -1, -1
	// where does value v (in function f) go: (writeUvarints call, position among its values)
	type dest struct {
		call ssa.CallInstruction
		pos  int
		n    int
	}
	var flow func(f *ssa.Function, v ssa.Value, depth int) []dest
	flow = func(f *ssa.Function, v ssa.Value, depth int) []dest {
		var out []dest
		if depth > 2 {
			return out
		}
		for _, b := range f.Blocks {
			for _, ins := range b.Instrs {
				// parked in a field of a record struct first: continue from where that field is read
				if st, ok := ins.(*ssa.Store); ok && st.Val == v {
					if fa, ok := st.Addr.(*ssa.FieldAddr); ok {
						if _, fv := fieldAddrInfo(fa); fv != nil {
							for _, b2 := range f.Blocks {
								for _, i2 := range b2.Instrs {
									if ld, ok := i2.(*ssa.UnOp); ok && ld.Op == token.MUL {
										if fa2, ok := ld.X.(*ssa.FieldAddr); ok {
											if _, fv2 := fieldAddrInfo(fa2); fv2 == fv {
												out = append(out, flow(f, ld, depth+1)...)
											}
										}
									}
								}
							}
						}
					}
					continue
				}
				ci, ok := ins.(ssa.CallInstruction)
				if !ok {
					continue
				}
				sc := ci.Common().StaticCallee()
				if sc == nil {
					continue
				}
				if sc == wu {
					vals := varargValues(ci.Common().Args[1])
					for k, x := range vals {
						if x == v {
							out = append(out, dest{ci, k, len(vals)})
						}
					}
					continue
				}
				if c.inRoot(sc) && sc.Blocks != nil {
					for ai, a := range ci.Common().Args {
						if a == v && ai < len(sc.Params) {
							out = append(out, flow(sc, sc.Params[ai], depth+1)...)
						}
					}
				}
			}
		}
		return out
	}
	type cand struct {
		param int
		d     dest
	}
	var cands []cand
	// accessorMap: call is h(m, …) with h an in-package accessor returning a lookup in its map parameter
	accessorMap := func(call *ssa.Call) *ssa.Parameter {
		sc := call.Call.StaticCallee()
		if sc == nil || !c.inRoot(sc) || sc.Blocks == nil {
			return nil
		}
		for _, b := range sc.Blocks {
			ret, ok := b.Instrs[len(b.Instrs)-1].(*ssa.Return)
			if !ok || len(ret.Results) != 1 {
				continue
			}
			lk, ok := stripConv(ret.Results[0]).(*ssa.Lookup)
			if !ok {
				continue
			}
			hp, ok := lk.X.(*ssa.Parameter)
			if !ok {
				continue
			}
			if p, ok := argFor(&call.Call, hp).(*ssa.Parameter); ok && p.Parent() == pf {
				return p
			}
		}
		return nil
	}
	for _, b := range pf.Blocks {
		for _, ins := range b.Instrs {
			var src ssa.Value
			var p *ssa.Parameter
			switch x := ins.(type) {
			case *ssa.Lookup:
				if pp, ok := x.X.(*ssa.Parameter); ok {
					src, p = x, pp
				}
			case *ssa.Call:
				if pp := accessorMap(x); pp != nil {
					src, p = x, pp
				}
			}
			if p == nil || p.Type().String() != "map[uint16]uint64" {
				continue
			}
			for _, d := range flow(pf, src, 0) {
				cands = append(cands, cand{paramIndex(p), d})
			}
		}
	}
	// the records may be written by a helper persistFields is split into, which is handed the
	// two maps unchanged: lookups in the helper's map parameters stand for the ones they are bound to
	if len(cands) == 0 {
		for _, b := range pf.Blocks {
			for _, ins := range b.Instrs {
				call, ok := ins.(*ssa.Call)
				if !ok {
					continue
				}
				h := call.Call.StaticCallee()
				if h == nil || !c.inRoot(h) || h.Blocks == nil || h == wu {
					continue
				}
				for ai, a := range call.Call.Args {
					pp, ok := a.(*ssa.Parameter)
					if !ok || pp.Parent() != pf || ai >= len(h.Params) || pp.Type().String() != "map[uint16]uint64" {
						continue
					}
					hp := h.Params[ai]
					for _, hb := range h.Blocks {
						for _, hi := range hb.Instrs {
							if lk, ok := hi.(*ssa.Lookup); ok && lk.X == ssa.Value(hp) {
								for _, d := range flow(h, lk, 0) {
									cands = append(cands, cand{paramIndex(pp), d})
								}
							}
						}
					}
				}
			}
		}
	}
	// the statistics record: one writeUvarints call with exactly two values,
	// both lookups in (different) map parameters
	for _, a := range cands {
		for _, b := range cands {
			if a.d.call == b.d.call && a.d.n == 2 && a.d.pos == 0 && b.d.pos == 1 && a.param != b.param {
				docs, freq, site = a.param, b.param, a.d.call
			}
		}
	}
	if docs >= 0 {
		return
	}
	// or: the uvarints of the record are put one by one (binary.PutUvarint(buf, v) + Write):
	// the last two that carry lookups in two different map parameters, in program order
	type put struct {
		call  *ssa.Call
		param int
	}
	var puts []put
	for _, b := range pf.Blocks {
		for _, ins := range b.Instrs {
			call, ok := ins.(*ssa.Call)
			if !ok || call.Call.StaticCallee() == nil || funcFullName(call.Call.StaticCallee()) != "encoding/binary.PutUvarint" {
				continue
			}
			v := stripConv(call.Call.Args[1])
			pi := -1
			switch x := v.(type) {
			case *ssa.Lookup:
				if pp, ok := x.X.(*ssa.Parameter); ok && pp.Type().String() == "map[uint16]uint64" {
					pi = paramIndex(pp)
				}
			case *ssa.Call:
				if pp := accessorMap(x); pp != nil && pp.Type().String() == "map[uint16]uint64" {
					pi = paramIndex(pp)
				}
			}
			puts = append(puts, put{call, pi})
		}
	}
	if n := len(puts); n >= 2 && puts[n-2].param >= 0 && puts[n-1].param >= 0 && puts[n-2].param != puts[n-1].param && before(puts[n-2].call, puts[n-1].call) {
		docs, freq, site = puts[n-2].param, puts[n-1].param, puts[n-1].call
	}
	return
}

func mLabels(l labelSet) []string {
	var out []string
	for _, n := range l.names() {
		if strings.HasPrefix(n, "M:") {
			out = append(out, n)
		}
	}
	return out
}

// segmentLocalFieldID: v derives — through conversions, arithmetic with
// constants, phis and parameters (all call sites) — from a field id that
// belongs to one input segment: Dictionary.fieldID or a lookup in a Segment's
// fieldsMap.  Returns a description of that source, "" when there is none.
func segmentLocalFieldID(c *Ctx, v ssa.Value, depth int) string {
	if depth > 6 {
		return ""
	}
	switch x := stripConv(v).(type) {
	case *ssa.UnOp:
		if x.Op == token.MUL {
			if fa, ok := x.X.(*ssa.FieldAddr); ok {
				owner, f := fieldAddrInfo(fa)
				if owner != nil && f != nil && owner.Obj().Name() == "Dictionary" && f.Name() == "fieldID" {
					return "Dictionary.fieldID"
				}
			}
		}
	case *ssa.BinOp:
		if s := segmentLocalFieldID(c, x.X, depth+1); s != "" {
			return s
		}
		return segmentLocalFieldID(c, x.Y, depth+1)
	case *ssa.Extract:
		return segmentLocalFieldID(c, x.Tuple, depth+1)
	case *ssa.Lookup:
		if ld, ok := x.X.(*ssa.UnOp); ok && ld.Op == token.MUL {
			if fa, ok := ld.X.(*ssa.FieldAddr); ok {
				owner, f := fieldAddrInfo(fa)
				if owner != nil && f != nil && owner.Obj().Name() == "Segment" && f.Name() == "fieldsMap" {
					return "Segment.fieldsMap[…]"
				}
			}
		}
	case *ssa.Phi:
		for _, e := range x.Edges {
			if e == ssa.Value(x) {
				continue
			}
			if s := segmentLocalFieldID(c, e, depth+1); s != "" {
				return s
			}
		}
	case *ssa.Parameter:
		fn := x.Parent()
		for _, site := range c.callsTo(fn) {
			if a := argFor(site.Common(), x); a != nil {
				if s := segmentLocalFieldID(c, a, depth+1); s != "" {
					return s + " (passed at " + c.pos(site.Pos()) + ")"
				}
			}
		}
	}
	return ""
}

// isUvarintDecoder: an in-package helper whose first result is, on a return,
// the value decoded by binary.Uvarint inside it (`v, n := binary.Uvarint(buf);
// return v, n, nil`): a call of it is a decode event like binary.Uvarint itself.
func (c *Ctx) isUvarintDecoder(fn *ssa.Function) bool {
	if fn == nil || !c.inRoot(fn) || fn.Blocks == nil || fn.Signature.Results().Len() == 0 {
		return false
	}
	for _, b := range fn.Blocks {
		ret, ok := b.Instrs[len(b.Instrs)-1].(*ssa.Return)
		if !ok || len(ret.Results) == 0 {
			continue
		}
		if ex, ok := resolveLoad(ret.Results[0]).(*ssa.Extract); ok && ex.Index == 0 {
			if call, ok := ex.Tuple.(*ssa.Call); ok {
				if sc := call.Call.StaticCallee(); sc != nil && funcFullName(sc) == "encoding/binary.Uvarint" {
					return true
				}
			}
		}
	}
	return false
}

// unitOf classifies the increment added to a statistics map entry.
func (c *Ctx) unitOf(v ssa.Value, seen map[ssa.Value]bool) []string {
	if seen[v] {
		return nil
	}
	seen[v] = true
	v = stripConv(v)
	switch x := v.(type) {
	case *ssa.Const:
		if x.Value != nil && x.Value.Kind() == constant.Int {
			if i, ok := constant.Int64Val(x.Value); ok && i == 1 {
				return []string{"COUNT"}
			}
			if i, ok := constant.Int64Val(x.Value); ok && i == 0 {
				return nil
			}
		}
		return []string{"CONST"}
	case *ssa.Call:
		cc := &x.Call
		if cc.IsInvoke() {
			recv := cc.Value.Type().String()
			switch {
			case cc.Method.Name() == "Length" && strings.HasSuffix(recv, "bluge_segment_api.Field"):
				return []string{"FREQ"}
			case cc.Method.Name() == "Frequency" && (strings.HasSuffix(recv, "bluge_segment_api.Posting") || strings.HasSuffix(recv, "bluge_segment_api.FieldTerm")):
				return []string{"FREQ"}
			}
			return []string{"OTHER:" + cc.Method.Name()}
		}
		if sc := cc.StaticCallee(); sc != nil {
			switch {
			case sc.Name() == "GetCardinality" && sc.Signature.Recv() != nil && isRoaringBitmapPtr(sc.Signature.Recv().Type()):
				return []string{"CARD"}
			case fnName(sc) == "(*PostingsList).Count":
				return []string{"CARD"}
			case fnName(sc) == "(*Posting).Frequency":
				return []string{"FREQ"}
			case funcFullName(sc) == "encoding/binary.Uvarint":
				return []string{"FILE"}
			case c.isUvarintDecoder(sc):
				return []string{"FILE"}
			}
			// an in-package helper that computes the increment: what it returns
			if u, ok := c.unitOfResult(sc, 0, seen); ok {
				return u
			}
			return []string{"OTHER:" + fnName(sc)}
		}
	case *ssa.Extract:
		if call, ok := x.Tuple.(*ssa.Call); ok && !call.Call.IsInvoke() {
			if u, ok := c.unitOfResult(call.Call.StaticCallee(), x.Index, seen); ok {
				return u
			}
		}
		return c.unitOf(x.Tuple, seen)
	case *ssa.Parameter:
		// handed in by the caller(s): what they pass
		sites := c.callsTo(x.Parent())
		if len(sites) == 0 {
			return []string{"OTHER:" + v.String()}
		}
		var out []string
		for _, site := range sites {
			if a := argFor(site.Common(), x); a != nil {
				out = append(out, c.unitOf(a, seen)...)
			}
		}
		return out
	case *ssa.Phi:
		var out []string
		for _, e := range x.Edges {
			out = append(out, c.unitOf(e, seen)...)
		}
		return out
	case *ssa.BinOp:
		if x.Op == token.ADD {
			return append(c.unitOf(x.X, seen), c.unitOf(x.Y, seen)...)
		}
		return []string{"OTHER:" + x.Op.String()}
	case *ssa.Lookup:
		return nil // reading the running total itself
	case *ssa.UnOp:
		if x.Op == token.MUL {
			if y := c.throughStruct(x); y != ssa.Value(x) {
				return c.unitOf(y, seen)
			}
			// local accumulator cell: union of what is stored
			if a, ok := x.X.(*ssa.Alloc); ok && a.Referrers() != nil {
				var out []string
				for _, ref := range *a.Referrers() {
					if st, ok := ref.(*ssa.Store); ok && st.Addr == ssa.Value(a) {
						out = append(out, c.unitOf(st.Val, seen)...)
					}
				}
				return out
			}
			// an element of a per-document accumulator slice handed from function to
			// function: union of what is stored into its elements, wherever
			if ia, ok := x.X.(*ssa.IndexAddr); ok {
				if vals := c.sliceElemStores(ia.X); len(vals) > 0 {
					var out []string
					for _, sv := range vals {
						out = append(out, c.unitOf(sv, seen)...)
					}
					return out
				}
			}
		}
	}
	return []string{"OTHER:" + v.String()}
}

// unitOfResult: the classification of result idx of an in-package function with
// a body - the union over its returns (a sum accumulated in a loop is a phi of
// its increments).
func (c *Ctx) unitOfResult(fn *ssa.Function, idx int, seen map[ssa.Value]bool) ([]string, bool) {
	if fn == nil || !c.inRoot(fn) || fn.Blocks == nil || idx >= fn.Signature.Results().Len() {
		return nil, false
	}
	if b, ok := fn.Signature.Results().At(idx).Type().Underlying().(*types.Basic); !ok || b.Info()&types.IsInteger == 0 {
		return nil, false
	}
	var out []string
	n := 0
	for _, b := range fn.Blocks {
		ret, ok := b.Instrs[len(b.Instrs)-1].(*ssa.Return)
		if !ok || idx >= len(ret.Results) {
			continue
		}
		n++
		out = append(out, c.unitOf(resolveLoad(ret.Results[idx]), seen)...)
	}
	return out, n > 0
}

func uniq(in []string) []string {
	m := map[string]bool{}
	for _, s := range in {
		m[s] = true
	}
	var out []string
	for s := range m {
		out = append(out, s)
	}
	sort.Strings(out)
	return out
}

func init() {
	register(&Rule{
		Name:  "STAT-UNITS",
		Floor: 2,
		Doc:   "the two statistics lanes are identified from the code (docs lane: maps reaching persistFields' 2nd parameter / Segment.fieldDocs; freq lane: 3rd parameter / Segment.fieldFreqs). Every update of a freq-lane map adds a term-frequency quantity (Field.Length(), Posting.Frequency()); every update of a docs-lane map adds 1 per element of a per-document set or the cardinality of the per-field document tracker; values decoded from the file go to the lane of their position",
		Run: func(c *Ctx, scope string, r *Report) {
			p := c.mapOriginProv()
			pf := c.MustFn("persistFields")
			docs, freq := map[string]bool{}, map[string]bool{}
			di, fi, _ := c.statParams()
			if di < 0 {
				r.undecided("lanes", "", "-", "cannot find the statistics record (writeUvarints of two map lookups) in persistFields")
				return
			}
			for _, site := range c.callsTo(pf) {
				for _, m := range mLabels(p.Classify(site.Common().Args[di])) {
					docs[m] = true
				}
				for _, m := range mLabels(p.Classify(site.Common().Args[fi])) {
					freq[m] = true
				}
			}
			// maps held by Segment.fieldDocs / fieldFreqs
			seg := c.NamedType("Segment").Obj()
			for _, st := range c.census().fieldStores[fieldKey{seg, "fieldDocs"}] {
				for _, m := range mLabels(p.Classify(st.val)) {
					docs[m] = true
				}
			}
			for _, st := range c.census().fieldStores[fieldKey{seg, "fieldFreqs"}] {
				for _, m := range mLabels(p.Classify(st.val)) {
					freq[m] = true
				}
			}
			r.note("docs lane maps: %v; freq lane maps: %v", keys(docs), keys(freq))
			if len(docs) == 0 || len(freq) == 0 {
				r.undecided("lanes", "", "-", "could not identify the statistics maps reaching persistFields")
				return
			}
			for m := range docs {
				if freq[m] {
					r.bad("lanes/crossed/"+m, "", "-", "the same map reaches both the document-count and the term-frequency position: "+m)
				}
			}
			for _, fn := range c.srcFns {
				for _, b := range fn.Blocks {
					for _, ins := range b.Instrs {
						mu, ok := ins.(*ssa.MapUpdate)
						if !ok {
							continue
						}
						labels := mLabels(p.Classify(mu.Map))
						inDocs, inFreq := false, false
						for _, m := range labels {
							if docs[m] {
								inDocs = true
							}
							if freq[m] {
								inFreq = true
							}
						}
						if !inDocs && !inFreq {
							continue
						}
						lane := "docs"
						if inFreq {
							lane = "freq"
						}
						key := fnName(fn) + "/" + lane + "-update"
						if inDocs && inFreq {
							r.bad(key, fnName(fn), c.pos(mu.Pos()), "update of a map that belongs to both lanes")
							continue
						}
						units := uniq(c.unitOf(mu.Value, map[ssa.Value]bool{}))
						us := strings.Join(units, "+")
						okUnits := false
						switch lane {
						case "freq":
							okUnits = us == "FREQ" || us == "FILE"
						case "docs":
							okUnits = us == "COUNT" || us == "CARD" || us == "FILE"
						}
						if !okUnits {
							want := "a term frequency (Field.Length / Posting.Frequency)"
							if lane == "docs" {
								want = "1 per document or the document tracker's cardinality"
							}
							r.bad(key, fnName(fn), c.pos(mu.Pos()), fmt.Sprintf("%s-lane statistic accumulates %s; expected %s", lane, us, want))
							continue
						}
						// docs lane, COUNT: the key must come from ranging over a per-document set made in this function
						if lane == "docs" && us == "COUNT" {
							if !keyFromLocalSetRange(mu.Key) && !keyIsRangeIndex(mu.Key) {
								r.bad(key, fnName(fn), c.pos(mu.Pos()), "document count is incremented per occurrence rather than once per document: the key does not come from ranging over a per-document set")
								continue
							}
							// every member of the set counts: the only test allowed between the loop and
							// the increment is presence (a nil test), never a property of the field's content
							if g := contentGuard(mu); g != "" {
								r.bad(key, fnName(fn), c.pos(mu.Pos()), "the document count of a field is incremented only when "+g+": a document that has the field but fails that test is not counted")
								continue
							}
						}
						if us == "FILE" {
							continue // checked by STAT-LANES (position in the record)
						}
						// merger: persistFields reads the maps with the index of the MERGED
						// field list, so the key must be that index, never an input
						// segment's own field id (ids differ when the field sets differ)
						if c.entries().MERGE[topFn(fn)] {
							if src := segmentLocalFieldID(c, mu.Key, 0); src != "" {
								r.bad(key, fnName(fn), c.pos(mu.Pos()), lane+"-lane statistic of the merged segment is keyed by "+src+", an input segment's own field id; persistFields reads it with the merged field index")
								continue
							}
						}
						r.ok(key, fnName(fn), c.pos(mu.Pos()), lane+"-lane update adds "+us)
					}
				}
			}
		},
	})

	register(&Rule{
		Name:  "STAT-LANES",
		Floor: 8,
		Doc:   "the two statistics never cross between persistFields' record positions, loadFields' decode positions, the Segment fields and the CollectionStats fields; TotalDocumentCount comes from footer.numDocs; unknown fields leave the zero struct; CollectionStats.Merge unconditionally adds each component to itself; the merger's per-field document tracker is cleared on every path before a field's terms are merged",
		Run: func(c *Ctx, scope string, r *Report) {
			// (1) persistFields: the statistics record carries (docs, freq); every call site passes maps of the right lane
			pf := c.MustFn("persistFields")
			di, fi, recSite := c.statParams()
			if di < 0 {
				r.undecided("persistFields/record-order", "persistFields", c.pos(pf.Pos()), "cannot find the writeUvarints call that carries the two statistics")
			} else {
				r.ok("persistFields/record-order", "persistFields", c.pos(recSite.Pos()), fmt.Sprintf("record carries (%s[id], %s[id])", pf.Params[di].Name(), pf.Params[fi].Name()))
				for _, site := range c.callsTo(pf) {
					key := fnName(site.Parent()) + "/persistFields-args"
					a, b := accessPath(site.Common().Args[di]), accessPath(site.Common().Args[fi])
					// lane by the unit of what is accumulated is STAT-UNITS; here: the two arguments are distinct maps
					if site.Common().Args[di] == site.Common().Args[fi] || (a == b && strings.Contains(a, ".")) {
						r.bad(key, fnName(site.Parent()), c.pos(site.Pos()), "the same map is passed for both statistics")
					} else {
						r.ok(key, fnName(site.Parent()), c.pos(site.Pos()), "distinct maps for the two statistics")
					}
				}
			}
			// (2) loadFields: the value stored to fieldDocs is decoded before the one stored to fieldFreqs
			lf := c.MustFn("(*Segment).loadFields")
			// the record may be decoded in a helper loadFields is split into: take the
			// function (two levels) that stores into Segment.fieldDocs
			{
				storesStats := func(f *ssa.Function) bool {
					for _, b := range f.Blocks {
						for _, ins := range b.Instrs {
							if mu, ok := ins.(*ssa.MapUpdate); ok && strings.HasSuffix(accessPath(mu.Map), ".fieldDocs") {
								return true
							}
						}
					}
					return false
				}
				if !storesStats(lf) {
				search:
					for _, sc := range staticCallees(lf) {
						if !c.inRoot(sc) || sc.Blocks == nil {
							continue
						}
						if storesStats(sc) {
							lf = sc
							break search
						}
						for _, sc2 := range staticCallees(sc) {
							if c.inRoot(sc2) && sc2.Blocks != nil && storesStats(sc2) {
								lf = sc2
								break search
							}
						}
					}
				}
			}
			var dIdx, fIdx []int
			order := map[ssa.Value]int{}
			n := 0
			for _, b := range lf.Blocks {
				for _, ins := range b.Instrs {
					if call, ok := ins.(*ssa.Call); ok {
						if sc := call.Call.StaticCallee(); sc != nil && (funcFullName(sc) == "encoding/binary.Uvarint" || c.isUvarintDecoder(sc)) {
							n++
							order[call] = n
						}
					}
				}
			}
			for _, b := range lf.Blocks {
				for _, ins := range b.Instrs {
					mu, ok := ins.(*ssa.MapUpdate)
					if !ok {
						continue
					}
					ap := accessPath(mu.Map)
					// (a record decoded by a helper into a struct: the value the helper stored in that field)
					ex, ok := c.throughStruct(mu.Value).(*ssa.Extract)
					if !ok {
						continue
					}
					if call, isCall := ex.Tuple.(*ssa.Call); isCall && call.Parent() != lf && order[ex.Tuple] == 0 {
						// count the decoder calls of the function that decodes the record
						n = 0
						for _, b2 := range call.Parent().Blocks {
							for _, i2 := range b2.Instrs {
								if c2, ok := i2.(*ssa.Call); ok {
									if sc := c2.Call.StaticCallee(); sc != nil && (funcFullName(sc) == "encoding/binary.Uvarint" || c.isUvarintDecoder(sc)) {
										n++
										order[c2] = n
									}
								}
							}
						}
					}
					if strings.HasSuffix(ap, ".fieldDocs") {
						dIdx = append(dIdx, order[ex.Tuple])
					}
					if strings.HasSuffix(ap, ".fieldFreqs") {
						fIdx = append(fIdx, order[ex.Tuple])
					}
				}
			}
			key := "loadFields/decode-order"
			if len(dIdx) == 1 && len(fIdx) == 1 && dIdx[0] > 0 && fIdx[0] == dIdx[0]+1 && fIdx[0] == n {
				r.ok(key, fnName(lf), c.pos(lf.Pos()), fmt.Sprintf("fieldDocs <- uvarint #%d, fieldFreqs <- uvarint #%d (last two of the record)", dIdx[0], fIdx[0]))
			} else {
				r.bad(key, fnName(lf), c.pos(lf.Pos()), fmt.Sprintf("the decoded statistics are not stored as (docs, freq) from the last two uvarints of the record: docs<-%v freq<-%v of %d", dIdx, fIdx, n))
			}
			// (3) initSegmentBase parameters -> Segment fields
			isb := c.MustFn("initSegmentBase")
			seg := c.NamedType("Segment").Obj()
			for _, want := range []struct {
				field string
				param int
			}{{"fieldDocs", 4}, {"fieldFreqs", 5}} {
				key := "initSegmentBase/" + want.field
				ok := false
				wantParam := paramNamed(isb, want.field)
				if wantParam == nil {
					wantParam = isb.Params[want.param]
				}
				for _, st := range c.census().fieldStores[fieldKey{seg, want.field}] {
					if st.fn == isb && st.val == ssa.Value(wantParam) {
						ok = true
					}
				}
				if ok {
					r.ok(key, "initSegmentBase", c.pos(isb.Pos()), fmt.Sprintf("Segment.%s <- parameter %s", want.field, isb.Params[want.param].Name()))
				} else {
					r.bad(key, "initSegmentBase", c.pos(isb.Pos()), "Segment."+want.field+" is not initialised from the corresponding parameter")
				}
			}
			// (3b) call of initSegmentBase in newWithChunkMode passes FieldDocs, FieldFreqs in that order
			for _, site := range c.callsTo(isb) {
				key := fnName(site.Parent()) + "/initSegmentBase-args"
				a4, a5 := accessPath(site.Common().Args[4]), accessPath(site.Common().Args[5])
				if strings.HasSuffix(a4, ".FieldDocs") && strings.HasSuffix(a5, ".FieldFreqs") {
					r.ok(key, fnName(site.Parent()), c.pos(site.Pos()), "passes (FieldDocs, FieldFreqs)")
				} else {
					r.bad(key, fnName(site.Parent()), c.pos(site.Pos()), "initSegmentBase is not given (FieldDocs, FieldFreqs) in that order: "+a4+", "+a5)
				}
			}
			// (4) CollectionStats
			cs := c.MustFn("(*Segment).CollectionStats")
			wantSrc := map[string]string{"totalDocCount": ".footer.numDocs", "docCount": ".fieldDocs", "sumTotalTermFreq": ".fieldFreqs"}
			got := map[string]string{}
			var guard *ssa.BasicBlock
			for _, b := range cs.Blocks {
				if ifi, ok := b.Instrs[len(b.Instrs)-1].(*ssa.If); ok {
					if bin, ok := ifi.Cond.(*ssa.BinOp); ok {
						// the field id obtained as a signed number, -1 for an unknown field (a helper that
						// returns int(fieldsMap[name]) - 1): known exactly when id >= 0 / id > -1 / id != -1
						if k, isK := constInt(bin.Y); isK && ownFieldID(c, bin.X, cs.Params[0], 0) && !isUnsigned(bin.X.Type()) {
							var g *ssa.BasicBlock
							switch {
							case bin.Op == token.GEQ && k == 0, bin.Op == token.GTR && k == -1, bin.Op == token.NEQ && k == -1:
								g = b.Succs[0]
							case bin.Op == token.LSS && k == 0, bin.Op == token.LEQ && k == -1, bin.Op == token.EQL && k == -1:
								g = b.Succs[1]
							}
							if g != nil && len(g.Preds) == 1 {
								guard = g
							}
						}
						lk, isLk := bin.X.(*ssa.Lookup)
						k, isK := constInt(bin.Y)
						if isLk && isK && k == 0 && strings.HasSuffix(accessPath(lk.X), ".fieldsMap") {
							// the successor on which fieldsMap[field] != 0 (the field is known)
							switch bin.Op {
							case token.GTR, token.NEQ:
								guard = b.Succs[0]
							case token.EQL, token.LEQ:
								guard = b.Succs[1]
							}
							if guard != nil && len(guard.Preds) != 1 {
								guard = nil
							}
						}
					}
				}
			}
			for _, b := range cs.Blocks {
				for _, ins := range b.Instrs {
					st, ok := ins.(*ssa.Store)
					if !ok {
						continue
					}
					fa, ok := st.Addr.(*ssa.FieldAddr)
					if !ok {
						continue
					}
					owner, f := fieldAddrInfo(fa)
					if owner == nil || owner.Obj().Name() != "CollectionStats" {
						continue
					}
					src := ""
					switch v := st.Val.(type) {
					case *ssa.Lookup:
						src = accessPath(v.X)
					case *ssa.UnOp:
						src = accessPath(v.X)
					default:
						src = v.String()
					}
					got[f.Name()] = src
					if guard == nil || !guard.Dominates(b) {
						got[f.Name()] = "UNGUARDED " + src
					}
				}
			}
			for f, suffix := range wantSrc {
				key := "CollectionStats/" + f
				if strings.HasSuffix(got[f], suffix) && !strings.HasPrefix(got[f], "UNGUARDED") {
					r.ok(key, fnName(cs), c.pos(cs.Pos()), f+" <- "+got[f]+" (only for known fields)")
				} else {
					r.bad(key, fnName(cs), c.pos(cs.Pos()), fmt.Sprintf("CollectionStats.%s is set from %q, expected a value from %s under the known-field guard", f, got[f], suffix))
				}
			}
			// (5) accessors and Merge
			acc := map[string]string{} // method -> field
			for _, m := range []string{"TotalDocumentCount", "DocumentCount", "SumTotalTermFrequency"} {
				fn := c.MustFn("(*CollectionStats)." + m)
				for _, b := range fn.Blocks {
					if ret, ok := b.Instrs[len(b.Instrs)-1].(*ssa.Return); ok && len(ret.Results) == 1 {
						if ld, ok := ret.Results[0].(*ssa.UnOp); ok {
							acc[m] = strings.TrimPrefix(accessPath(ld.X), "c.")
						}
					}
				}
			}
			wantAcc := map[string]string{"TotalDocumentCount": "totalDocCount", "DocumentCount": "docCount", "SumTotalTermFrequency": "sumTotalTermFreq"}
			for m, f := range wantAcc {
				key := "CollectionStats." + m
				if acc[m] == f {
					r.ok(key, "(*CollectionStats)."+m, "-", "returns ."+f)
				} else {
					r.bad(key, "(*CollectionStats)."+m, "-", "returns ."+acc[m]+", expected ."+f)
				}
			}
			mg := c.MustFn("(*CollectionStats).Merge")
			merged := map[string]bool{}
			for _, b := range mg.Blocks {
				for _, ins := range b.Instrs {
					st, ok := ins.(*ssa.Store)
					if !ok {
						continue
					}
					fa, ok := st.Addr.(*ssa.FieldAddr)
					if !ok || fa.X != ssa.Value(mg.Params[0]) {
						continue
					}
					_, f := fieldAddrInfo(fa)
					bin, ok := st.Val.(*ssa.BinOp)
					if !ok || bin.Op != token.ADD {
						continue
					}
					var self, other ssa.Value = bin.X, bin.Y
					if _, isCall := self.(*ssa.Call); isCall {
						self, other = other, self
					}
					ld, ok1 := self.(*ssa.UnOp)
					call, ok2 := other.(*ssa.Call)
					if !ok1 || !ok2 || !call.Call.IsInvoke() || call.Call.Value != ssa.Value(mg.Params[1]) {
						continue
					}
					if accessPath(ld.X) == "c."+f.Name() && wantAcc[call.Call.Method.Name()] == f.Name() {
						// unconditional: the store's block dominates every return
						dom := true
						for _, rb := range mg.Blocks {
							if _, isRet := rb.Instrs[len(rb.Instrs)-1].(*ssa.Return); isRet && !b.Dominates(rb) {
								dom = false
							}
						}
						if dom {
							merged[f.Name()] = true
						}
					}
				}
			}
			for _, f := range []string{"totalDocCount", "docCount", "sumTotalTermFreq"} {
				key := "CollectionStats.Merge/" + f
				if merged[f] {
					r.ok(key, fnName(mg), c.pos(mg.Pos()), "c."+f+" += other's "+f+" on every path")
				} else {
					r.bad(key, fnName(mg), c.pos(mg.Pos()), "Merge does not unconditionally add the other side's "+f+" to c."+f)
				}
			}
			// (6) tracker reset in the merger
			pmr := c.MustFn("persistMergedRestField")
			var tracker *ssa.Parameter
			for _, prm := range pmr.Params {
				if prm.Name() == "fieldDocTracking" {
					tracker = prm
				}
			}
			key = "persistMergedRestField/tracker-reset"
			// the tracker may live in a statistics object handed to the function: then "clearing
			// it" is calling a method of that object which always clears one of its bitmap fields
			clearsOwnBitmap := func(m *ssa.Function) bool {
				if m == nil || m.Blocks == nil || m.Signature.Recv() == nil {
					return false
				}
				for _, call := range callsOfName(m, "Clear") {
					if sc := call.Call.StaticCallee(); sc == nil || sc.Signature.Recv() == nil || !isRoaringBitmapPtr(sc.Signature.Recv().Type()) {
						continue
					}
					ld, ok := call.Call.Args[0].(*ssa.UnOp)
					if !ok {
						continue
					}
					fa, ok := ld.X.(*ssa.FieldAddr)
					if !ok || fa.X != ssa.Value(m.Params[0]) {
						continue
					}
					all := true
					for _, rb := range m.Blocks {
						if _, isRet := rb.Instrs[len(rb.Instrs)-1].(*ssa.Return); isRet && !(call.Block() == rb || call.Block().Dominates(rb)) {
							all = false
						}
					}
					if all {
						return true
					}
				}
				return false
			}
			if tracker == nil {
				for _, prm := range pmr.Params {
					if prm.Referrers() == nil {
						continue
					}
					for _, ref := range *prm.Referrers() {
						if call, ok := ref.(*ssa.Call); ok && len(call.Call.Args) > 0 && call.Call.Args[0] == ssa.Value(prm) && clearsOwnBitmap(call.Call.StaticCallee()) {
							tracker = prm
						}
					}
				}
			}
			if tracker == nil {
				r.undecided(key, fnName(pmr), c.pos(pmr.Pos()), "parameter fieldDocTracking not found")
			} else {
				var clr *ssa.Call
				for _, ref := range *tracker.Referrers() {
					if call, ok := ref.(*ssa.Call); ok {
						if sc := call.Call.StaticCallee(); sc != nil && sc.Name() == "Clear" && call.Call.Args[0] == ssa.Value(tracker) {
							clr = call
						}
						if len(call.Call.Args) > 0 && call.Call.Args[0] == ssa.Value(tracker) && clearsOwnBitmap(call.Call.StaticCallee()) {
							clr = call
						}
					}
				}
				okReset := clr != nil
				why := "the per-field document tracker is never cleared"
				if clr != nil {
					for _, rb := range pmr.Blocks {
						ret, isRet := rb.Instrs[len(rb.Instrs)-1].(*ssa.Return)
						if !isRet {
							continue
						}
						if isNilConst(resolveLoad(ret.Results[0])) || !nonNilErrorValue(resolveLoad(ret.Results[0])) && !knownNonNilAt(resolveLoad(ret.Results[0]), rb) {
							if !clr.Block().Dominates(rb) {
								okReset = false
								why = "a possibly-successful return at " + c.pos(retPos(ret, rb)) + " is reachable without clearing the per-field document tracker: the previous field's documents would be counted for this field"
							}
						}
					}
					// and it must precede the first use by mergeTermFreqNormLocs
					for _, ref := range *tracker.Referrers() {
						if call, ok := ref.(*ssa.Call); ok && call != clr && !before(clr, call) {
							okReset = false
							why = "the tracker is used at " + c.pos(call.Pos()) + " before it is cleared"
						}
					}
				}
				if okReset {
					r.ok(key, fnName(pmr), c.pos(clr.Pos()), "tracker cleared on every path before use and before any successful return")
				} else {
					r.bad(key, fnName(pmr), c.pos(pmr.Pos()), why)
				}
			}
		},
	})
}

// keyFromLocalSetRange: the map key is the key of `range m` where m is a map
// made in the same function whose element type is struct{} (a per-document set).
func keyFromLocalSetRange(k ssa.Value) bool {
	ex, ok := stripConv(k).(*ssa.Extract)
	if !ok || ex.Index != 1 {
		return false
	}
	nx, ok := ex.Tuple.(*ssa.Next)
	if !ok {
		return false
	}
	rg, ok := nx.Iter.(*ssa.Range)
	if !ok {
		return false
	}
	var m ssa.Value = rg.X
	if ld, ok := m.(*ssa.UnOp); ok && ld.Op == token.MUL {
		if a, ok := ld.X.(*ssa.Alloc); ok && a.Referrers() != nil {
			for _, ref := range *a.Referrers() {
				if st, ok := ref.(*ssa.Store); ok && st.Addr == ssa.Value(a) {
					m = st.Val
				}
			}
		}
	}
	if mm, ok := m.(*ssa.MakeMap); ok {
		return strings.HasSuffix(mm.Type().String(), "]struct{}")
	}
	// a set that outlives the document (kept in a per-batch struct) is per-document all
	// the same when the loop that counts its members also empties it: every
	// iteration deletes the key it ranges over, on every path of the body
	if !strings.HasSuffix(rg.X.Type().String(), "]struct{}") {
		return false
	}
	hdr := nx.Block()
	if !isLoopHeader(hdr) {
		return false
	}
	body := loopBody(hdr)
	via := map[*ssa.BasicBlock]bool{}
	for b := range body {
		for _, ins := range b.Instrs {
			call, ok := ins.(*ssa.Call)
			if !ok {
				continue
			}
			if bi, ok := call.Call.Value.(*ssa.Builtin); ok && bi.Name() == "delete" && len(call.Call.Args) == 2 {
				if stripConv(call.Call.Args[1]) == stripConv(k) && (call.Call.Args[0] == rg.X || accessPath(call.Call.Args[0]) == accessPath(rg.X)) {
					via[b] = true
				}
			}
		}
	}
	if len(via) == 0 {
		return false
	}
	// every path from the body entry back to the header passes a delete
	for i, pr := range hdr.Preds {
		_ = i
		if hdr.Dominates(pr) && !coveredFrom(hdr.Succs[0], via, pr) && !via[pr] {
			return false
		}
	}
	return true
}

// varargValues returns the values stored into the elements of a variadic
// argument slice (new [N]T (varargs); &t[i] = v; slice t[:]).
func varargValues(v ssa.Value) []ssa.Value {
	sl, ok := v.(*ssa.Slice)
	if !ok {
		return nil
	}
	a, ok := sl.X.(*ssa.Alloc)
	if !ok || a.Referrers() == nil {
		return nil
	}
	vals := map[int64]ssa.Value{}
	max := int64(-1)
	for _, ref := range *a.Referrers() {
		ia, ok := ref.(*ssa.IndexAddr)
		if !ok || ia.Referrers() == nil {
			continue
		}
		idx, ok := constInt(ia.Index)
		if !ok {
			return nil
		}
		for _, r2 := range *ia.Referrers() {
			if st, ok := r2.(*ssa.Store); ok {
				vals[idx] = st.Val
				if idx > max {
					max = idx
				}
			}
		}
	}
	var out []ssa.Value
	for i := int64(0); i <= max; i++ {
		out = append(out, vals[i])
	}
	return out
}

// keyIsRangeIndex: k is the index of a range loop over a slice (each index is
// visited once per execution of the loop).
func keyIsRangeIndex(k ssa.Value) bool {
	bin, ok := stripConv(k).(*ssa.BinOp)
	if !ok || bin.Op != token.ADD {
		return false
	}
	phi, ok := bin.X.(*ssa.Phi)
	return ok && phi.Comment == "rangeindex"
}

// contentGuard: a branch condition, other than a loop condition or a nil test,
// that governs ins inside its function, in condCanon form; "" when none.
func contentGuard(ins ssa.Instruction) string {
	for b := ins.Block(); b != nil; b = b.Idom() {
		idom := b.Idom()
		if idom == nil {
			return ""
		}
		ifi, ok := idom.Instrs[len(idom.Instrs)-1].(*ssa.If)
		if !ok || len(b.Preds) != 1 || isLoopHeader(idom) {
			continue
		}
		pol := idom.Succs[0] == b
		if !pol && idom.Succs[1] != b {
			continue
		}
		if bin, ok := ifi.Cond.(*ssa.BinOp); ok && (isNilConst(bin.X) || isNilConst(bin.Y)) {
			continue
		}
		return condCanon(ifi.Cond, pol, nil)
	}
	return ""
}

// sliceElemStores: the values stored into elements of "the same slice" as v:
// v itself, the argument it was received as, the parameters and captured
// variables of the other functions that argument is handed to.
func (c *Ctx) sliceElemStores(v ssa.Value) []ssa.Value {
	if _, ok := v.Type().Underlying().(*types.Slice); !ok {
		return nil
	}
	roots := map[ssa.Value]bool{v: true}
	for round := 0; round < 4; round++ {
		n := len(roots)
		for root := range roots {
			switch x := root.(type) {
			case *ssa.Parameter:
				for _, site := range c.callsTo(x.Parent()) {
					if a := argFor(site.Common(), x); a != nil {
						roots[a] = true
					}
				}
			case *ssa.FreeVar:
				// the captured variable: binding i of every closure made of this function
				for _, fn := range c.srcFns {
					for _, b := range fn.Blocks {
						for _, ins := range b.Instrs {
							if mc, ok := ins.(*ssa.MakeClosure); ok && mc.Fn == ssa.Value(x.Parent()) {
								for i, fv := range x.Parent().FreeVars {
									if fv == x && i < len(mc.Bindings) {
										roots[mc.Bindings[i]] = true
									}
								}
							}
						}
					}
				}
			}
			if root.Referrers() == nil {
				continue
			}
			for _, ref := range *root.Referrers() {
				switch y := ref.(type) {
				case ssa.CallInstruction:
					if sc := y.Common().StaticCallee(); sc != nil && c.inRoot(sc) && sc.Blocks != nil {
						for i, a := range y.Common().Args {
							if a == root && i < len(sc.Params) {
								roots[sc.Params[i]] = true
							}
						}
					}
				case *ssa.MakeClosure:
					for i, bnd := range y.Bindings {
						if bnd == root {
							roots[y.Fn.(*ssa.Function).FreeVars[i]] = true
						}
					}
				case *ssa.Store:
					// spilled into a local cell (a variable captured by a closure lives in one)
					if a, ok := y.Addr.(*ssa.Alloc); ok && y.Val == root {
						roots[a] = true
					}
				case *ssa.UnOp:
					// a load of such a cell
					if _, isPtr := root.Type().Underlying().(*types.Pointer); isPtr && y.Op == token.MUL && y.X == root {
						roots[y] = true
					}
				}
			}
		}
		if len(roots) == n {
			break
		}
	}
	var out []ssa.Value
	for _, fn := range c.srcFns {
		for _, b := range fn.Blocks {
			for _, ins := range b.Instrs {
				st, ok := ins.(*ssa.Store)
				if !ok {
					continue
				}
				if ia, ok := st.Addr.(*ssa.IndexAddr); ok && roots[ia.X] {
					out = append(out, st.Val)
				}
			}
		}
	}
	return out
}

// throughStruct: v reads field f of a local struct that was filled by the
// result of an in-package helper (rest, err := s.readRecord(…); rest.docs):
// the one value the helper stores into field f of the struct it returns.
// Otherwise v.
func (c *Ctx) throughStruct(v ssa.Value) ssa.Value {
	var src ssa.Value
	field := -1
	switch x := v.(type) {
	case *ssa.UnOp:
		fa, ok := x.X.(*ssa.FieldAddr)
		if !ok || x.Op != token.MUL {
			return v
		}
		a, ok := fa.X.(*ssa.Alloc)
		if !ok {
			// the helper returns a pointer to the struct: x := h(); x.f
			switch px := fa.X.(type) {
			case *ssa.Call:
				src = px
			case *ssa.Extract:
				src = px
			default:
				return v
			}
			field = fa.Field
			break
		}
		if a.Referrers() == nil {
			return v
		}
		for _, ref := range *a.Referrers() {
			if st, ok := ref.(*ssa.Store); ok && st.Addr == ssa.Value(a) {
				if src != nil {
					return v
				}
				src = st.Val
			}
		}
		field = fa.Field
	case *ssa.Field:
		src, field = x.X, x.Field
	default:
		return v
	}
	if src == nil {
		return v
	}
	idx := 0
	if ex, ok := src.(*ssa.Extract); ok {
		src, idx = ex.Tuple, ex.Index
	}
	call, ok := src.(*ssa.Call)
	if !ok {
		return v
	}
	h := call.Call.StaticCallee()
	if h == nil || !c.inRoot(h) || h.Blocks == nil {
		return v
	}
	var found ssa.Value
	for _, b := range h.Blocks {
		ret, ok := b.Instrs[len(b.Instrs)-1].(*ssa.Return)
		if !ok || b == h.Recover || idx >= len(ret.Results) {
			continue
		}
		var a *ssa.Alloc
		if ld, ok := ret.Results[idx].(*ssa.UnOp); ok && ld.Op == token.MUL {
			a, _ = ld.X.(*ssa.Alloc)
		} else if pa, ok := ret.Results[idx].(*ssa.Alloc); ok {
			a = pa // &T{...} returned
		}
		if a == nil || a.Referrers() == nil {
			continue
		}
		for _, ref := range *a.Referrers() {
			fa, ok := ref.(*ssa.FieldAddr)
			if !ok || fa.Field != field {
				continue
			}
			for _, r2 := range *fa.Referrers() {
				if st, ok := r2.(*ssa.Store); ok && st.Addr == ssa.Value(fa) {
					if _, isConst := st.Val.(*ssa.Const); isConst {
						continue
					}
					if found != nil && found != st.Val {
						return v
					}
					found = st.Val
				}
			}
		}
	}
	if found == nil {
		return v
	}
	return found
}

func isUnsigned(t types.Type) bool {
	b, ok := t.Underlying().(*types.Basic)
	return ok && b.Info()&types.IsUnsigned != 0
}
