// icecheck: static checks of blugelabs/ice for the properties in
// /verif/properties.jsonl (see /verif/DESIGN.md).  Nothing here executes ice
// code; every verdict is computed from the source of -repo as it is on disk.
package main

import (
	"crypto/sha256"
	"encoding/hex"
	"encoding/json"
	"flag"
	"fmt"
	"io"
	"os"
	"path/filepath"
	"runtime/debug"
	"sort"
	"strconv"
	"strings"
	"time"
)

type Status int

const (
	Discharged Status = iota
	Violated
	Undecided
)

func (s Status) String() string {
	switch s {
	case Discharged:
		return "discharged"
	case Violated:
		return "violated"
	}
	return "undecided"
}

// Obligation is one instance of a rule (a call site, store, function, field, path).
// Key never contains a line number: rule + enclosing function + construct.
type Obligation struct {
	Rule   string   `json:"rule"`
	Key    string   `json:"key"`
	Func   string   `json:"func,omitempty"`
	Pos    string   `json:"pos"`
	Status string   `json:"status"`
	Msg    string   `json:"msg,omitempty"`
	Detail []string `json:"detail,omitempty"`
	st     Status
}

type Report struct {
	c    *Ctx
	rule string
	obs  []*Obligation
	keys map[string]int
	// info lines (what was analysed)
	notes []string
}

func (r *Report) add(st Status, key, fn, pos, msg string, detail ...string) *Obligation {
	if r.keys == nil {
		r.keys = map[string]int{}
	}
	full := r.rule + "/" + key
	r.keys[full]++
	if n := r.keys[full]; n > 1 {
		full = fmt.Sprintf("%s#%d", full, n)
	}
	o := &Obligation{Rule: r.rule, Key: full, Func: fn, Pos: pos, Status: st.String(), Msg: msg, Detail: detail, st: st}
	r.obs = append(r.obs, o)
	return o
}
func (r *Report) ok(key, fn, pos, msg string, detail ...string) {
	r.add(Discharged, key, fn, pos, msg, detail...)
}
func (r *Report) bad(key, fn, pos, msg string, detail ...string) {
	r.add(Violated, key, fn, pos, msg, detail...)
}
func (r *Report) undecided(key, fn, pos, msg string, detail ...string) {
	r.add(Undecided, key, fn, pos, msg, detail...)
}
func (r *Report) note(format string, a ...interface{}) {
	r.notes = append(r.notes, fmt.Sprintf(format, a...))
}

// Rule is a named static rule; Run enumerates its instances over the scope.
type Rule struct {
	Name  string
	Doc   string // what exactly it decides when it passes
	Floor int    // minimum number of instances (hand-confirmed count, halved)
	// ZeroOK: the expected number of matches on a correct tree is zero (the rule
	// looks for a construct that should not exist); a positive and a negative
	// example in /verif/controls must match on every run instead
	ZeroOK bool
	Run    func(c *Ctx, scope string, r *Report)
}

type RuleUse struct {
	Rule  string
	Scope string // entry-point set name or "" (rule specific)
}

type Property struct {
	ID          string
	Title       string
	Technique   string // a few words naming the deciding method
	Level       string // level_claimed.text
	Explanation string
	Uses        []RuleUse
	Assumptions []string
	NotCovered  string
}

var rules = map[string]*Rule{}

func register(r *Rule) { rules[r.Name] = r }

type knownFinding struct {
	Property, Rule, Construct, Text string
}

func loadKnown(path string) ([]knownFinding, error) {
	b, err := os.ReadFile(path)
	if err != nil {
		if os.IsNotExist(err) {
			return nil, nil
		}
		return nil, err
	}
	var out []knownFinding
	for _, line := range strings.Split(string(b), "\n") {
		line = strings.TrimSpace(line)
		if !strings.HasPrefix(line, "known:") {
			continue
		}
		kf := knownFinding{Text: line}
		for _, f := range strings.Fields(strings.TrimPrefix(line, "known:")) {
			if v, ok := strings.CutPrefix(f, "property="); ok {
				kf.Property = v
			} else if v, ok := strings.CutPrefix(f, "rule="); ok {
				kf.Rule = v
			} else if v, ok := strings.CutPrefix(f, "construct="); ok {
				kf.Construct = v
			}
		}
		if kf.Property == "" || kf.Rule == "" || kf.Construct == "" {
			return nil, fmt.Errorf("malformed known finding: %q", line)
		}
		out = append(out, kf)
	}
	return out, nil
}

var (
	flagProperty = flag.String("property", "", "property id (C01..C19)")
	flagTier     = flag.String("tier", "quick", "quick|thorough")
	flagRepo     = flag.String("repo", "/repo", "repository to analyse")
	flagVerif    = flag.String("verif", "", "verif directory (default: parent of the executable's dir)")
	flagEvidence = flag.String("evidence", "", "evidence file (default <verif>/evidence/<id>.json)")
	flagReplay   = flag.String("replay", "", "replay file: re-evaluate one obligation verbosely")
	flagList     = flag.Bool("list", false, "list rules, floors and property assignment")
	flagNoCtl    = flag.Bool("nocontrols", false, "skip engine controls (used by mutant sub-runs)")
	flagNoEv     = flag.Bool("noevidence", false, "do not write evidence (used by mutant sub-runs)")
	flagRulesOut = flag.String("dump", "", "write all obligations of the property as JSON to this file")
	flagVerbose  = flag.Bool("v", false, "print every obligation")
	flagGolden   = flag.String("write-golden", "", "extract the format table from -repo and write it to this file (maintenance)")
)

func verifDir() string {
	if *flagVerif != "" {
		return *flagVerif
	}
	if v := os.Getenv("VERIF_DIR"); v != "" {
		return v
	}
	exe, err := os.Executable()
	if err == nil {
		d := filepath.Dir(filepath.Dir(exe))
		if _, err := os.Stat(filepath.Join(d, "properties.jsonl")); err == nil {
			return d
		}
	}
	return "/verif"
}

func main() {
	flag.Parse()
	code := run()
	os.Exit(code)
}

func run() (code int) {
	start := time.Now()
	defer func() {
		if p := recover(); p != nil {
			if ie, ok := p.(*InfraError); ok {
				fmt.Printf("INFRA-FAILURE: %s\n", ie.msg)
			} else if ie, ok := p.(error); ok && isInfra(ie) {
				fmt.Printf("INFRA-FAILURE: %v\n", ie)
			} else {
				fmt.Printf("INFRA-FAILURE: panic in checker: %v\n%s\n", p, debug.Stack())
			}
			code = 2
		}
	}()
	if *flagList {
		listRules()
		return 0
	}
	if *flagManifest {
		printManifest()
		return 0
	}
	if *flagSigs {
		c, err := loadCtx(loadOpts{dir: *flagRepo, rootPath: rootPkgPath, config: "default"})
		if err != nil {
			panic(err)
		}
		fmt.Print(sigDump(c))
		return 0
	}
	vd := verifDir()
	goldenNamesPath = filepath.Join(vd, "golden", "names.json")
	defer cleanupScratch()
	if *flagNames != "" {
		goldenNamesPath = ""
		c, err := loadCtx(loadOpts{dir: *flagRepo, rootPath: rootPkgPath, config: "default"})
		if err != nil {
			panic(err)
		}
		if err := writeNamesFile(c, *flagNames); err != nil {
			panic(err)
		}
		fmt.Println("reference names written to", *flagNames)
		return 0
	}
	if *flagReplay != "" {
		return replay(vd, *flagReplay)
	}
	if *flagGolden != "" {
		c, err := loadCtx(loadOpts{dir: *flagRepo, rootPath: rootPkgPath, config: "default"})
		if err != nil {
			panic(err)
		}
		if err := writeGolden(c, *flagGolden); err != nil {
			panic(err)
		}
		fmt.Println("golden table written to", *flagGolden)
		return 0
	}
	if *flagMatrix {
		return matrixRun(vd)
	}
	prop := properties[*flagProperty]
	if prop == nil {
		fmt.Printf("unknown or unclaimed property %q\n", *flagProperty)
		return 2
	}
	tier := *flagTier
	if t := os.Getenv("VERIF_TIER"); t != "" && (t == "quick" || t == "thorough") && !flagSet("tier") {
		tier = t
	}
	seed := 0
	if s := os.Getenv("VERIF_SEED"); s != "" {
		seed, _ = strconv.Atoi(s)
	}

	before := treeHash(*flagRepo)

	// 1. engine controls
	var ctl *controlResult
	if !*flagNoCtl {
		ctl = runControls(filepath.Join(vd, "controls"))
		if !ctl.OK {
			for _, f := range ctl.Failures {
				fmt.Println("CONTROL-FAILURE:", f)
			}
			panic(infra("engine controls failed (%d): the checker itself is broken, no verdict", len(ctl.Failures)))
		}
	}

	// 2. analyse /repo
	c, err := loadCtx(loadOpts{dir: *flagRepo, rootPath: rootPkgPath, config: "default", vta: tier == "thorough"})
	if err != nil {
		panic(err)
	}
	res := evalProperty(c, prop)

	ev := newEvidence(prop, tier, seed)
	ev.addConfig(c, res)
	if ctl != nil {
		ev.Coverage["controls"] = ctl
	}

	// 3. thorough extras
	if tier == "thorough" {
		thorough(vd, c, prop, res, ev)
	}

	if after := treeHash(*flagRepo); after != before {
		panic(infra("the analysed tree %s changed while it was being analysed", *flagRepo))
	}

	// 4. verdict
	known, err := loadKnown(filepath.Join(vd, "known_findings.txt"))
	if err != nil {
		panic(infra("known_findings.txt: %v", err))
	}
	violations := 0
	var viol []*Obligation
	for _, o := range res.all {
		if o.st == Discharged {
			continue
		}
		matched := false
		for _, k := range known {
			if k.Property == prop.ID && k.Rule == o.Rule && o.Key == k.Rule+"/"+k.Construct {
				fmt.Printf("KNOWN-FINDING: property=%s rule=%s construct=%s at %s: %s\n", prop.ID, o.Rule, k.Construct, o.Pos, o.Msg)
				matched = true
				break
			}
		}
		if !matched {
			viol = append(viol, o)
		}
	}
	replayDir := filepath.Join(vd, "evidence", "replay")
	for _, o := range viol {
		violations++
		path := ""
		if !*flagNoEv {
			path = writeReplay(replayDir, prop.ID, o, *flagRepo)
		} else {
			path = "-"
		}
		fmt.Printf("VIOLATION property=%s replay=%s\n", prop.ID, path)
		fmt.Printf("  rule=%s status=%s at %s in %s\n  %s\n", o.Rule, o.Status, o.Pos, o.Func, o.Msg)
		for _, d := range o.Detail {
			fmt.Printf("    %s\n", d)
		}
	}
	for _, v := range res.extraViolations {
		violations++
		fmt.Printf("VIOLATION property=%s replay=%s\n  %s\n", prop.ID, "-", v)
	}
	ev.Violations = violations
	ev.WallS = time.Since(start).Seconds()
	if !*flagNoEv {
		evPath := *flagEvidence
		if evPath == "" {
			evPath = filepath.Join(vd, "evidence", prop.ID+".json")
		}
		if err := ev.write(evPath); err != nil {
			panic(infra("writing evidence: %v", err))
		}
	}
	if *flagRulesOut != "" {
		b, _ := json.MarshalIndent(res.all, "", " ")
		_ = os.WriteFile(*flagRulesOut, b, 0o644)
	}
	if *flagVerbose {
		for _, o := range res.all {
			fmt.Printf("%-10s %-28s %s  %s\n", o.Status, o.Pos, o.Key, o.Msg)
		}
	}
	nd := 0
	for _, o := range res.all {
		if o.st == Discharged {
			nd++
		}
	}
	fmt.Printf("icecheck property=%s tier=%s: %d obligations, %d discharged, %d violation(s); %d functions analysed; %.1fs\n",
		prop.ID, tier, len(res.all), nd, violations, len(c.srcFns), time.Since(start).Seconds())
	for _, rs := range res.perRule {
		fmt.Printf("  rule %-24s instances=%-4d floor=%-3d %s\n", rs.Rule, rs.Instances, rs.Floor, rs.Scope)
	}
	if violations > 0 {
		return 1
	}
	return 0
}

func flagSet(name string) bool {
	set := false
	flag.Visit(func(f *flag.Flag) {
		if f.Name == name {
			set = true
		}
	})
	return set
}

func isInfra(err error) bool {
	_, ok := err.(*InfraError)
	return ok
}

type ruleStat struct {
	Rule      string   `json:"rule"`
	Scope     string   `json:"scope,omitempty"`
	Instances int      `json:"instances"`
	Floor     int      `json:"floor"`
	Decides   string   `json:"decides"`
	Notes     []string `json:"analysed,omitempty"`
}

type propResult struct {
	all             []*Obligation
	perRule         []ruleStat
	extraViolations []string
}

func evalProperty(c *Ctx, p *Property) *propResult {
	res := &propResult{}
	for _, u := range p.Uses {
		rule := rules[u.Rule]
		if rule == nil {
			panic(infra("property %s uses unknown rule %s", p.ID, u.Rule))
		}
		rep := &Report{c: c, rule: rule.Name}
		rule.Run(c, u.Scope, rep)
		sort.SliceStable(rep.obs, func(i, j int) bool { return rep.obs[i].Key < rep.obs[j].Key })
		res.all = append(res.all, rep.obs...)
		res.perRule = append(res.perRule, ruleStat{Rule: rule.Name, Scope: u.Scope, Instances: len(rep.obs), Floor: rule.Floor, Decides: rule.Doc, Notes: rep.notes})
		if (len(rep.obs) < rule.Floor || len(rep.obs) == 0) && !rule.ZeroOK {
			res.extraViolations = append(res.extraViolations,
				fmt.Sprintf("rule %s (scope %q) matched %d instance(s), below its floor %d: vacuous — the code the rule is anchored in changed shape; review the rule", rule.Name, u.Scope, len(rep.obs), rule.Floor))
		}
	}
	return res
}

func listRules() {
	var ids []string
	for id := range properties {
		ids = append(ids, id)
	}
	sort.Strings(ids)
	for _, id := range ids {
		p := properties[id]
		fmt.Printf("%s %s\n", id, p.Title)
		for _, u := range p.Uses {
			r := rules[u.Rule]
			fmt.Printf("   %-24s scope=%-8s floor=%-3d %s\n", u.Rule, u.Scope, r.Floor, r.Doc)
		}
	}
}

// treeHash hashes all .go/go.mod/go.sum files of the tree (to assert the
// analysis does not modify what it analyses, and that it is stable during the run).
func treeHash(dir string) string {
	h := sha256.New()
	var files []string
	_ = filepath.Walk(dir, func(p string, info os.FileInfo, err error) error {
		if err != nil {
			return nil
		}
		if info.IsDir() {
			if info.Name() == ".git" {
				return filepath.SkipDir
			}
			return nil
		}
		if strings.HasSuffix(p, ".go") || info.Name() == "go.mod" || info.Name() == "go.sum" {
			files = append(files, p)
		}
		return nil
	})
	sort.Strings(files)
	for _, f := range files {
		io.WriteString(h, f+"\x00")
		if fh, err := os.Open(f); err == nil {
			_, _ = io.Copy(h, fh)
			fh.Close()
		}
	}
	return hex.EncodeToString(h.Sum(nil))
}

type replayFile struct {
	Property string      `json:"property"`
	Repo     string      `json:"repo"`
	Ob       *Obligation `json:"obligation"`
	Howto    string      `json:"howto"`
}

func writeReplay(dir, prop string, o *Obligation, repo string) string {
	_ = os.MkdirAll(dir, 0o755)
	sum := sha256.Sum256([]byte(o.Key))
	name := fmt.Sprintf("%s-%s-%s.json", prop, sanitize(o.Rule), hex.EncodeToString(sum[:4]))
	path := filepath.Join(dir, name)
	rf := replayFile{Property: prop, Repo: repo, Ob: o, Howto: "bin/icecheck -replay " + path}
	b, _ := json.MarshalIndent(rf, "", " ")
	_ = os.WriteFile(path, b, 0o644)
	return path
}

func sanitize(s string) string {
	var b strings.Builder
	for _, r := range s {
		if r >= 'a' && r <= 'z' || r >= 'A' && r <= 'Z' || r >= '0' && r <= '9' || r == '-' {
			b.WriteRune(r)
		} else {
			b.WriteByte('_')
		}
	}
	return b.String()
}

// replay re-evaluates the single obligation recorded in a replay file against
// the current tree and prints it verbosely.
func replay(vd, path string) int {
	b, err := os.ReadFile(path)
	if err != nil {
		fmt.Println("cannot read replay file:", err)
		return 2
	}
	var rf replayFile
	if err := json.Unmarshal(b, &rf); err != nil || rf.Ob == nil {
		fmt.Println("malformed replay file:", err)
		return 2
	}
	prop := properties[rf.Property]
	if prop == nil {
		fmt.Println("unknown property", rf.Property)
		return 2
	}
	repo := *flagRepo
	c, err := loadCtx(loadOpts{dir: repo, rootPath: rootPkgPath, config: "default"})
	if err != nil {
		panic(err)
	}
	res := evalProperty(c, prop)
	fmt.Printf("replay of %s (recorded: %s at %s)\n", rf.Ob.Key, rf.Ob.Status, rf.Ob.Pos)
	found := false
	for _, o := range res.all {
		if o.Key == rf.Ob.Key {
			found = true
			fmt.Printf("now: rule=%s status=%s at %s in %s\n  %s\n", o.Rule, o.Status, o.Pos, o.Func, o.Msg)
			for _, d := range o.Detail {
				fmt.Printf("    %s\n", d)
			}
			if o.st != Discharged {
				fmt.Printf("VIOLATION property=%s replay=%s\n", rf.Property, path)
				return 1
			}
		}
	}
	if !found {
		fmt.Println("the obligation no longer exists on the current tree (construct removed or renamed)")
	}
	return 0
}

// ---- MANIFEST generation (maintenance: `icecheck -manifest > MANIFEST.json`) ----

var flagNames = flag.String("write-names", "", "extract the reference name table from -repo and write it to this file (maintenance)")

var flagMatrix = flag.Bool("matrix", false, "maintenance: load -repo once, evaluate every claimed property (quick tier, no controls, no evidence) and print one line per property")

// matrixRun: the corpus tools run hundreds of patched trees against every
// property; loading the program once per tree instead of once per property
// makes that affordable.  Output format: "<id> rc=<0|1|2> violations=<n> <RULE@func> ...".
func matrixRun(vd string) int {
	c, err := loadCtx(loadOpts{dir: *flagRepo, rootPath: rootPkgPath, config: "default"})
	var ids []string
	for id := range properties {
		ids = append(ids, id)
	}
	sort.Strings(ids)
	if err != nil {
		for _, id := range ids {
			fmt.Printf("%s rc=2 violations=0 INFRA: %v\n", id, err)
		}
		return 2
	}
	known, _ := loadKnown(filepath.Join(vd, "known_findings.txt"))
	worst := 0
	for _, id := range ids {
		func() {
			defer func() {
				if p := recover(); p != nil {
					fmt.Printf("%s rc=2 violations=0 INFRA: %v\n", id, p)
					worst = 2
				}
			}()
			prop := properties[id]
			res := evalProperty(c, prop)
			n := 0
			seen := map[string]bool{}
			var rules []string
			for _, o := range res.all {
				if o.st == Discharged {
					continue
				}
				matched := false
				for _, k := range known {
					if k.Property == prop.ID && k.Rule == o.Rule && o.Key == k.Rule+"/"+k.Construct {
						matched = true
					}
				}
				if matched {
					continue
				}
				n++
				tag := o.Rule + "@" + o.Func
				if !seen[tag] {
					seen[tag] = true
					rules = append(rules, tag)
				}
			}
			for range res.extraViolations {
				n++
			}
			if len(res.extraViolations) > 0 {
				rules = append(rules, "FLOOR/EXTRA")
			}
			sort.Strings(rules)
			rc := 0
			if n > 0 {
				rc = 1
				if worst < 1 {
					worst = 1
				}
			}
			fmt.Printf("%s rc=%d violations=%d %s\n", id, rc, n, strings.Join(rules, " "))
		}()
	}
	return worst
}

var flagSigs = flag.Bool("sigs", false, "print the extracted wire signatures (debug)")
var flagManifest = flag.Bool("manifest", false, "print MANIFEST.json generated from the property table")

type naEntry struct {
	ID     string `json:"property_id"`
	Reason string `json:"reason"`
}

func printManifest() {
	var ids []string
	for id := range properties {
		ids = append(ids, id)
	}
	sort.Strings(ids)
	var checks []map[string]interface{}
	for _, id := range ids {
		p := properties[id]
		var rn []string
		for _, u := range p.Uses {
			rn = append(rn, u.Rule)
		}
		checks = append(checks, map[string]interface{}{
			"property_id":         id,
			"quick_cmd":           "./check.sh " + id + " quick",
			"thorough_cmd":        "./check.sh " + id + " thorough",
			"evidence_file":       "/verif/evidence/" + id + ".json",
			"replay_cmd_template": "bin/icecheck -replay {path}",
			"engine":              "icecheck",
			"technique":           p.Technique,
			"level_claimed": map[string]string{
				"category":   "other",
				"text":       p.Level,
				"design_ref": "DESIGN.md §5 " + id,
			},
			"level_note": "Trusted base: go/types + go/ssa + go/cfg (x/tools v0.29.0); dependency behaviour (roaring, vellum, zstd, bufio, bluge_segment_api.Data) summarised by tables, not analysed. Rules: " + strings.Join(rn, ", ") + ". Not covered: " + p.NotCovered,
		})
	}
	var na []naEntry
	for _, e := range notApplicable {
		if properties[e.ID] == nil {
			na = append(na, e)
		}
	}
	m := map[string]interface{}{
		"version":   1,
		"setup_cmd": "cd /verif/icecheck && GOFLAGS=-mod=mod GOPROXY=off GOSUMDB=off GOTOOLCHAIN=local GOWORK=off go build -o /verif/bin/icecheck .",
		"hooks": map[string]interface{}{
			"guard":            "verif",
			"enable":           "none needed: the checks never build or run ice; `-tags verif` is only analysed as an extra build configuration in the thorough tier",
			"baseline_off_cmd": "cd /repo && GOFLAGS=-mod=mod GOPROXY=off GOSUMDB=off go test -json -vet=off -count=1 -timeout 25m ./...",
			"source_commits":   []string{},
			"add_only":         true,
		},
		"engines": []map[string]interface{}{{
			"name": "icecheck", "path": "/verif/icecheck", "serves_properties": ids,
			"kind_free_text": "purpose-built static analyser for blugelabs/ice: go/packages + go/types + go/ssa + go/cfg + CHA/VTA call graph; rules are repository-specific (lockset, error flow, provenance classes, store census, dominance/typestate, wire-format extraction)",
		}},
		"checks":         checks,
		"not_applicable": na,
		"notes":          "Technique family: static analysis only. Every claimed property is claimed at level 'other' through named structural rules that are necessary conditions of the behaviour (DESIGN.md §5 says which clause each rule decides and what stays uncovered). Genuine defects found while deriving the rules were repaired in /repo by eighteen 'fix:' commits, recorded as 'fixed:' in known_findings.txt.",
	}
	b, _ := json.MarshalIndent(m, "", " ")
	fmt.Println(string(b))
}
