package main

// E4 — error flow on the AST control-flow graph (go/cfg + go/types).
//
// For every call whose result tuple contains an `error`, the error must be
// accounted for on every path: returned (directly or wrapped), tested against
// nil with the non-nil branch returning a non-nil error, tolerated as a listed
// sentinel, handed to a terminal call, or stored in a sticky error field.

import (
	"fmt"
	"go/ast"
	"go/token"
	"go/types"
	"sort"
	"strings"

	"golang.org/x/tools/go/cfg"
)

type efFinding struct {
	fnName string // enclosing function (with $n for literals)
	callee string
	pos    token.Pos
	ok     bool
	status Status
	how    string // idiom that discharged it, or the reason it is violated
	path   []string
}

type efFunc struct {
	name   string
	decl   *ast.FuncDecl // top-level declaration
	lit    *ast.FuncLit  // nil for the declaration itself
	body   *ast.BlockStmt
	ftype  *ast.FuncType
	sig    *types.Signature
	recv   *types.Var
	g      *cfg.CFG
	errRes []*types.Var // named error results
	encl   *efFunc      // the function a literal is written in
	// deferred: the literal is the operand of a defer statement of encl, so an
	// assignment to encl's named error result still changes what encl returns
	deferred bool
}

type errFlow struct {
	c          *Ctx
	info       *types.Info
	infallible map[*types.Func]bool
	sentinels  map[types.Object]bool
	funcs      []*efFunc
	exempt     map[string]string     // "func|callee" -> reason
	caseTag    map[ast.Expr]ast.Expr // case expression of a tagged switch -> the switch tag
}

var errType = types.Universe.Lookup("error").Type()

func isErrorType(t types.Type) bool { return t != nil && types.Identical(t, errType) }

// errorIndexes returns the indexes of error components of a call's result type.
func errorIndexes(t types.Type) []int {
	switch t := t.(type) {
	case *types.Tuple:
		var out []int
		for i := 0; i < t.Len(); i++ {
			if isErrorType(t.At(i).Type()) {
				out = append(out, i)
			}
		}
		return out
	default:
		if isErrorType(t) {
			return []int{0}
		}
	}
	return nil
}

func newErrFlow(c *Ctx, sentinelPaths []string, exempt map[string]string) *errFlow {
	ef := &errFlow{c: c, info: c.Info, infallible: map[*types.Func]bool{}, sentinels: map[types.Object]bool{}, exempt: exempt}
	// sentinels: resolved through imports by path.name
	for _, sp := range sentinelPaths {
		i := strings.LastIndex(sp, ".")
		path, name := sp[:i], sp[i+1:]
		for _, imp := range c.Root.Types.Imports() {
			if imp.Path() == path {
				if o := imp.Scope().Lookup(name); o != nil {
					ef.sentinels[o] = true
				}
			}
		}
	}
	// `switch err { case nil: … case sentinel: … default: … }`: go/cfg makes each
	// case expression a two-way condition; it means tag == expression
	ef.caseTag = map[ast.Expr]ast.Expr{}
	for _, file := range c.Root.Syntax {
		ast.Inspect(file, func(n ast.Node) bool {
			sw, ok := n.(*ast.SwitchStmt)
			if !ok || sw.Tag == nil {
				return true
			}
			for _, st := range sw.Body.List {
				if cc, ok := st.(*ast.CaseClause); ok {
					for _, e := range cc.List {
						ef.caseTag[e] = sw.Tag
					}
				}
			}
			return true
		})
	}
	// collect function bodies: declarations and literals
	for _, file := range c.Root.Syntax {
		for _, d := range file.Decls {
			fd, ok := d.(*ast.FuncDecl)
			if !ok || fd.Body == nil {
				continue
			}
			obj := c.Info.Defs[fd.Name].(*types.Func)
			top := &efFunc{name: declName(obj), decl: fd, body: fd.Body, ftype: fd.Type, sig: obj.Type().(*types.Signature)}
			top.recv = top.sig.Recv()
			ef.funcs = append(ef.funcs, top)
			n := 0
			deferredLit := map[*ast.FuncLit]bool{}
			ast.Inspect(fd.Body, func(x ast.Node) bool {
				if ds, ok := x.(*ast.DeferStmt); ok {
					if fl, ok := ast.Unparen(ds.Call.Fun).(*ast.FuncLit); ok {
						deferredLit[fl] = true
					}
				}
				return true
			})
			var walk func(parent *efFunc, node ast.Node)
			walk = func(parent *efFunc, node ast.Node) {
				k := 0
				ast.Inspect(node, func(x ast.Node) bool {
					if fl, ok := x.(*ast.FuncLit); ok && x != node {
						k++
						n++
						name := fmt.Sprintf("%s$%d", parent.name, k)
						sig, _ := c.Info.TypeOf(fl).(*types.Signature)
						f := &efFunc{name: name, decl: fd, lit: fl, body: fl.Body, ftype: fl.Type, sig: sig, recv: top.recv, encl: parent, deferred: deferredLit[fl]}
						ef.funcs = append(ef.funcs, f)
						walk(f, fl.Body)
						return false
					}
					return true
				})
			}
			walk(top, fd.Body)
		}
	}
	for _, f := range ef.funcs {
		f.g = cfg.New(f.body, ef.mayReturn)
		if f.sig != nil {
			res := f.sig.Results()
			for i := 0; i < res.Len(); i++ {
				if isErrorType(res.At(i).Type()) && res.At(i).Name() != "" && res.At(i).Name() != "_" {
					f.errRes = append(f.errRes, res.At(i))
				}
			}
		}
	}
	// a deferred literal may hand an error to its function's caller through the
	// function's named error result (funcs lists a function before its literals)
	for _, f := range ef.funcs {
		if f.deferred && f.encl != nil {
			f.errRes = append(f.errRes, f.encl.errRes...)
		}
	}
	ef.computeInfallible()
	return ef
}

func declName(obj *types.Func) string {
	if a, ok := declAlias.Load(obj); ok {
		return a.(string)
	}
	sig := obj.Type().(*types.Signature)
	if r := sig.Recv(); r != nil {
		t := r.Type()
		if p, ok := t.(*types.Pointer); ok {
			if n, ok := p.Elem().(*types.Named); ok {
				return "(*" + n.Obj().Name() + ")." + obj.Name()
			}
		}
		if n, ok := t.(*types.Named); ok {
			return n.Obj().Name() + "." + obj.Name()
		}
	}
	return obj.Name()
}

// terminal calls never return.
func (ef *errFlow) isTerminal(call *ast.CallExpr) bool {
	switch fun := ast.Unparen(call.Fun).(type) {
	case *ast.Ident:
		if b, ok := ef.info.Uses[fun].(*types.Builtin); ok && b.Name() == "panic" {
			return true
		}
	case *ast.SelectorExpr:
		if f, ok := ef.info.Uses[fun.Sel].(*types.Func); ok && f.Pkg() != nil {
			full := f.Pkg().Path() + "." + f.Name()
			switch full {
			case "log.Panicf", "log.Panic", "log.Panicln", "log.Fatalf", "log.Fatal", "log.Fatalln", "os.Exit":
				return true
			}
		}
	}
	return false
}

func (ef *errFlow) mayReturn(call *ast.CallExpr) bool { return !ef.isTerminal(call) }

func (ef *errFlow) calleeFunc(call *ast.CallExpr) *types.Func {
	switch fun := ast.Unparen(call.Fun).(type) {
	case *ast.Ident:
		if f, ok := ef.info.Uses[fun].(*types.Func); ok {
			return f
		}
	case *ast.SelectorExpr:
		if f, ok := ef.info.Uses[fun.Sel].(*types.Func); ok {
			return f
		}
	}
	return nil
}

func (ef *errFlow) calleeName(call *ast.CallExpr) string {
	if f := ef.calleeFunc(call); f != nil {
		if f.Pkg() != nil && f.Pkg() != ef.c.Root.Types {
			if sig := f.Type().(*types.Signature); sig.Recv() != nil {
				return "(" + types.TypeString(sig.Recv().Type(), func(p *types.Package) string { return p.Name() }) + ")." + f.Name()
			}
			return f.Pkg().Name() + "." + f.Name()
		}
		return declName(f)
	}
	return types.ExprString(call.Fun)
}

// computeInfallible: fixpoint over root-package functions: every return's
// error operand is nil, a call to an infallible function, or a variable whose
// every assignment in the function is one of those.
func (ef *errFlow) computeInfallible() {
	type cand struct {
		obj *types.Func
		f   *efFunc
	}
	var cands []cand
	for _, f := range ef.funcs {
		if f.lit != nil || f.sig == nil {
			continue
		}
		if len(errorIndexes(f.sig.Results())) == 0 {
			continue
		}
		obj := ef.info.Defs[f.decl.Name].(*types.Func)
		cands = append(cands, cand{obj, f})
	}
	// optimistic start, then remove
	for _, cd := range cands {
		ef.infallible[cd.obj] = true
	}
	changed := true
	for changed {
		changed = false
		for _, cd := range cands {
			if !ef.infallible[cd.obj] {
				continue
			}
			if !ef.checkInfallible(cd.f) {
				ef.infallible[cd.obj] = false
				changed = true
			}
		}
	}
}

func (ef *errFlow) checkInfallible(f *efFunc) bool {
	res := f.sig.Results()
	errIdx := errorIndexes(res)
	// classify assignments to error-typed local variables (flow-insensitive)
	varOK := map[*types.Var]bool{}
	varSeen := map[*types.Var]bool{}
	okExpr := func(e ast.Expr) bool { return false }
	var okCallAt func(call *ast.CallExpr) bool
	okCallAt = func(call *ast.CallExpr) bool {
		cf := ef.calleeFunc(call)
		return cf != nil && ef.infallible[cf]
	}
	okExpr = func(e ast.Expr) bool {
		e = ast.Unparen(e)
		if id, ok := e.(*ast.Ident); ok {
			if _, isNil := ef.info.Uses[id].(*types.Nil); isNil {
				return true
			}
		}
		if call, ok := e.(*ast.CallExpr); ok {
			return okCallAt(call)
		}
		return false
	}
	bad := false
	markAssign := func(lhs ast.Expr, ok bool) {
		id, isID := ast.Unparen(lhs).(*ast.Ident)
		if !isID {
			return
		}
		v, _ := ef.info.ObjectOf(id).(*types.Var)
		if v == nil || !isErrorType(v.Type()) {
			return
		}
		if !varSeen[v] {
			varSeen[v] = true
			varOK[v] = true
		}
		if !ok {
			varOK[v] = false
		}
	}
	ast.Inspect(f.body, func(n ast.Node) bool {
		switch n := n.(type) {
		case *ast.FuncLit:
			// a literal assigning to an error variable: give up (not infallible)
			ast.Inspect(n.Body, func(m ast.Node) bool {
				if as, ok := m.(*ast.AssignStmt); ok {
					for _, l := range as.Lhs {
						markAssign(l, false)
					}
				}
				return true
			})
			return false
		case *ast.AssignStmt:
			if len(n.Rhs) == 1 && len(n.Lhs) > 1 {
				call, isCall := ast.Unparen(n.Rhs[0]).(*ast.CallExpr)
				for i, l := range n.Lhs {
					_ = i
					markAssign(l, isCall && okCallAt(call))
				}
			} else {
				for i, l := range n.Lhs {
					if i < len(n.Rhs) {
						markAssign(l, okExpr(n.Rhs[i]))
					}
				}
			}
		case *ast.RangeStmt:
			if n.Key != nil {
				markAssign(n.Key, false)
			}
			if n.Value != nil {
				markAssign(n.Value, false)
			}
		}
		return true
	})
	okRet := func(e ast.Expr) bool {
		if okExpr(e) {
			return true
		}
		if id, ok := ast.Unparen(e).(*ast.Ident); ok {
			if v, ok := ef.info.ObjectOf(id).(*types.Var); ok {
				if varSeen[v] {
					return varOK[v]
				}
				// never assigned: zero value nil (only for non-parameters)
				return !isParam(f.sig, v)
			}
		}
		return false
	}
	ast.Inspect(f.body, func(n ast.Node) bool {
		if _, ok := n.(*ast.FuncLit); ok {
			return false
		}
		rs, ok := n.(*ast.ReturnStmt)
		if !ok {
			return true
		}
		if len(rs.Results) == 0 {
			// bare return: named results
			for _, i := range errIdx {
				v := res.At(i)
				if varSeen[v] && !varOK[v] {
					bad = true
				}
			}
			return true
		}
		if len(rs.Results) == 1 && res.Len() > 1 {
			call, isCall := ast.Unparen(rs.Results[0]).(*ast.CallExpr)
			if !(isCall && okCallAt(call)) {
				bad = true
			}
			return true
		}
		for _, i := range errIdx {
			if i < len(rs.Results) && !okRet(rs.Results[i]) {
				bad = true
			}
		}
		return true
	})
	return !bad
}

func isParam(sig *types.Signature, v *types.Var) bool {
	for i := 0; i < sig.Params().Len(); i++ {
		if sig.Params().At(i) == v {
			return true
		}
	}
	return false
}

// ---- places -------------------------------------------------------------

// place identifies a storage location holding an error: a variable, or a
// field selector chain rooted at a variable ("i.err").
type place struct {
	v     *types.Var
	path  string // "" for plain variable, ".err" for fields
	field bool
}

func (p place) String() string {
	if p.v == nil {
		return "<call>"
	}
	return p.v.Name() + p.path
}

func (ef *errFlow) placeOf(e ast.Expr) (place, bool) {
	e = ast.Unparen(e)
	switch e := e.(type) {
	case *ast.Ident:
		if e.Name == "_" {
			return place{}, false
		}
		if v, ok := ef.info.ObjectOf(e).(*types.Var); ok {
			return place{v: v}, true
		}
	case *ast.SelectorExpr:
		if sel := ef.info.Selections[e]; sel != nil && sel.Kind() == types.FieldVal {
			base, ok := ef.placeOf(e.X)
			if ok {
				return place{v: base.v, path: base.path + "." + e.Sel.Name, field: true}, true
			}
		}
	}
	return place{}, false
}

func (ef *errFlow) mentions(n ast.Node, p place) bool {
	found := false
	ast.Inspect(n, func(x ast.Node) bool {
		if found {
			return false
		}
		if e, ok := x.(ast.Expr); ok {
			if q, ok := ef.placeOf(e); ok && q == p {
				found = true
				return false
			}
		}
		return true
	})
	return found
}

func (ef *errFlow) isNilIdent(e ast.Expr) bool {
	id, ok := ast.Unparen(e).(*ast.Ident)
	if !ok {
		return false
	}
	_, isNil := ef.info.Uses[id].(*types.Nil)
	return isNil
}

func (ef *errFlow) isSentinel(e ast.Expr) bool {
	switch e := ast.Unparen(e).(type) {
	case *ast.SelectorExpr:
		return ef.sentinels[ef.info.Uses[e.Sel]]
	case *ast.Ident:
		return ef.sentinels[ef.info.Uses[e]]
	}
	return false
}

// ---- abstract interpretation of conditions -------------------------------

type absState uint8

const (
	stU absState = iota // unchecked: may be nil or not
	stN                 // known non-nil
	stZ                 // known nil         (discharged)
	stS                 // equals a tolerated sentinel (discharged)
)

func (s absState) String() string { return [...]string{"unchecked", "non-nil", "nil", "sentinel"}[s] }

// matchTracked reports whether e denotes the tracked value: one of the alias
// places, or (for direct-call sources) the call expression itself.
type tracked struct {
	places []place
	call   *ast.CallExpr
}

func (ef *errFlow) isTracked(e ast.Expr, t *tracked) bool {
	e = ast.Unparen(e)
	if t.call != nil && e == ast.Expr(t.call) {
		return true
	}
	if p, ok := ef.placeOf(e); ok {
		for _, q := range t.places {
			if p == q {
				return true
			}
		}
	}
	return false
}

// refine returns the set of possible states of the tracked value after cond
// evaluates to `want`, given current state s.
func (ef *errFlow) refine(cond ast.Expr, want bool, s absState, t *tracked) []absState {
	cond = ast.Unparen(cond)
	switch e := cond.(type) {
	case *ast.UnaryExpr:
		if e.Op == token.NOT {
			return ef.refine(e.X, !want, s, t)
		}
	case *ast.BinaryExpr:
		switch e.Op {
		case token.LAND, token.LOR:
			and := e.Op == token.LAND
			if and == want {
				// both operands evaluate to `want`
				var out []absState
				for _, s1 := range ef.refine(e.X, want, s, t) {
					out = append(out, ef.refine(e.Y, want, s1, t)...)
				}
				return dedupStates(out)
			}
			// X is !want-deciding, or X is want-neutral and Y decides
			out := ef.refine(e.X, want, s, t)
			for _, s1 := range ef.refine(e.X, !want, s, t) {
				out = append(out, ef.refine(e.Y, want, s1, t)...)
			}
			return dedupStates(out)
		case token.EQL, token.NEQ:
			var other ast.Expr
			if ef.isTracked(e.X, t) {
				other = e.Y
			} else if ef.isTracked(e.Y, t) {
				other = e.X
			} else {
				return []absState{s}
			}
			eq := (e.Op == token.EQL) == want
			if ef.isNilIdent(other) {
				if eq {
					if s == stN {
						return nil // infeasible
					}
					return []absState{stZ}
				}
				if s == stZ {
					return nil
				}
				if s == stS {
					return []absState{stS}
				}
				return []absState{stN}
			}
			if ef.isSentinel(other) {
				if eq {
					return []absState{stS}
				}
				return []absState{s}
			}
			return []absState{s}
		}
	}
	return []absState{s}
}

func dedupStates(in []absState) []absState {
	seen := map[absState]bool{}
	var out []absState
	for _, s := range in {
		if !seen[s] {
			seen[s] = true
			out = append(out, s)
		}
	}
	return out
}

// ---- the walk -------------------------------------------------------------

type efSource struct {
	f     *efFunc
	call  *ast.CallExpr
	block *cfg.Block
	idx   int // node index in block
	node  ast.Node
}

// analyse returns one finding per error-returning call in the package.
func (ef *errFlow) analyse() []efFinding {
	var out []efFinding
	for _, f := range ef.funcs {
		for _, b := range f.g.Blocks {
			if !b.Live {
				continue
			}
			for i, n := range b.Nodes {
				for _, call := range ef.errCallsIn(n) {
					out = append(out, ef.analyseSource(&efSource{f: f, call: call, block: b, idx: i, node: n}))
				}
			}
		}
	}
	sort.Slice(out, func(i, j int) bool { return out[i].pos < out[j].pos })
	return out
}

// errCallsIn lists the calls with an error result syntactically inside node n
// but not inside a nested function literal.
func (ef *errFlow) errCallsIn(n ast.Node) []*ast.CallExpr {
	var out []*ast.CallExpr
	ast.Inspect(n, func(x ast.Node) bool {
		switch x := x.(type) {
		case *ast.FuncLit:
			return false
		case *ast.CallExpr:
			if tv, ok := ef.info.Types[x]; ok && !tv.IsType() && len(errorIndexes(tv.Type)) > 0 {
				// conversions error(x) are not calls
				if ftv, ok := ef.info.Types[x.Fun]; ok && ftv.IsType() {
					return true
				}
				out = append(out, x)
			}
		}
		return true
	})
	return out
}

func parentOf(root ast.Node, target ast.Node) ast.Node {
	var parent ast.Node
	var stack []ast.Node
	ast.Inspect(root, func(x ast.Node) bool {
		if x == nil {
			stack = stack[:len(stack)-1]
			return true
		}
		if x == target && len(stack) > 0 {
			parent = stack[len(stack)-1]
		}
		stack = append(stack, x)
		return parent == nil
	})
	return parent
}

func (ef *errFlow) finding(src *efSource, ok bool, st Status, how string, path []string) efFinding {
	return efFinding{fnName: src.f.name, callee: ef.calleeName(src.call), pos: src.call.Pos(), ok: ok, status: st, how: how, path: path}
}

func (ef *errFlow) analyseSource(src *efSource) efFinding {
	call := src.call
	if cf := ef.calleeFunc(call); cf != nil && ef.infallible[cf] {
		return ef.finding(src, true, Discharged, "infallible callee (every return carries a nil error)", nil)
	}
	if ef.isTerminal(call) {
		return ef.finding(src, true, Discharged, "terminal call", nil)
	}
	key := src.f.name + "|" + ef.calleeName(call)
	if reason, ok := ef.exempt[key]; ok {
		return ef.finding(src, true, Discharged, "listed exemption: "+reason, nil)
	}
	tv := ef.info.Types[call]
	idxs := errorIndexes(tv.Type)
	_, isTuple := tv.Type.(*types.Tuple)

	// how is the call used in its node?
	par := parentOf(src.node, call)
	if src.node == ast.Node(call) {
		par = nil
	}
	// strip parens
	for {
		if pe, ok := par.(*ast.ParenExpr); ok {
			par = parentOf(src.node, pe)
			continue
		}
		break
	}
	switch p := par.(type) {
	case nil:
		// the node is the call itself: a bare expression statement is wrapped in ExprStmt normally,
		// so this is a condition consisting only of the call (not error typed) – fallthrough
	case *ast.ExprStmt:
		return ef.finding(src, false, Violated, "error result dropped: call used as a statement", nil)
	case *ast.DeferStmt, *ast.GoStmt:
		return ef.finding(src, false, Violated, "error result dropped: deferred/go call", nil)
	case *ast.ReturnStmt:
		return ef.finding(src, true, Discharged, "returned directly", nil)
	case *ast.AssignStmt:
		var lhs ast.Expr
		if isTuple {
			if len(p.Lhs) != tv.Type.(*types.Tuple).Len() {
				return ef.finding(src, false, Undecided, "unrecognised assignment shape", nil)
			}
			lhs = p.Lhs[idxs[len(idxs)-1]]
		} else {
			for i, r := range p.Rhs {
				if ast.Unparen(r) == ast.Expr(call) && i < len(p.Lhs) {
					lhs = p.Lhs[i]
				}
			}
		}
		if lhs == nil {
			return ef.finding(src, false, Undecided, "unrecognised assignment shape", nil)
		}
		if id, ok := ast.Unparen(lhs).(*ast.Ident); ok && id.Name == "_" {
			return ef.finding(src, false, Violated, "error result discarded with _", nil)
		}
		pl, ok := ef.placeOf(lhs)
		if !ok {
			return ef.finding(src, false, Undecided, "error assigned to an unrecognised place "+types.ExprString(lhs), nil)
		}
		return ef.walkFrom(src, &tracked{places: []place{pl}}, src.block, src.idx+1, stU)
	case *ast.ValueSpec:
		var name *ast.Ident
		if isTuple {
			if len(p.Names) == tv.Type.(*types.Tuple).Len() {
				name = p.Names[idxs[len(idxs)-1]]
			}
		} else {
			for i, r := range p.Values {
				if ast.Unparen(r) == ast.Expr(call) && i < len(p.Names) {
					name = p.Names[i]
				}
			}
		}
		if name == nil {
			return ef.finding(src, false, Undecided, "unrecognised var declaration shape", nil)
		}
		if name.Name == "_" {
			return ef.finding(src, false, Violated, "error result discarded with _", nil)
		}
		pl, _ := ef.placeOf(name)
		return ef.walkFrom(src, &tracked{places: []place{pl}}, src.block, src.idx+1, stU)
	case *ast.BinaryExpr:
		// call compared directly inside a condition: `f() == nil`
		if !isTuple && (p.Op == token.EQL || p.Op == token.NEQ) && len(src.block.Succs) == 2 && src.idx == len(src.block.Nodes)-1 {
			if cond, ok := src.node.(ast.Expr); ok {
				return ef.walkCond(src, &tracked{call: call}, src.block, cond, stU)
			}
		}
	case *ast.CallExpr:
		// error passed straight to another call: wrap helpers and terminals
		if ef.isTerminal(p) {
			return ef.finding(src, true, Discharged, "passed to a terminal call", nil)
		}
	}
	return ef.finding(src, false, Undecided, fmt.Sprintf("error-returning call used in an unrecognised context (%T)", par), nil)
}

type walkItem struct {
	b     *cfg.Block
	idx   int
	st    absState
	alias string
}

func (ef *errFlow) walkCond(src *efSource, t *tracked, b *cfg.Block, cond ast.Expr, st absState) efFinding {
	w := &efWalker{ef: ef, src: src, seen: map[string]bool{}}
	w.branch(b, cond, st, t, nil)
	return w.result()
}

func (ef *errFlow) walkFrom(src *efSource, t *tracked, b *cfg.Block, idx int, st absState) efFinding {
	w := &efWalker{ef: ef, src: src, seen: map[string]bool{}}
	w.walk(b, idx, st, t, nil)
	return w.result()
}

type efWalker struct {
	ef      *errFlow
	src     *efSource
	seen    map[string]bool
	bad     []string
	badPath []string
	und     []string
	idioms  map[string]bool
	steps   int
}

func (w *efWalker) result() efFinding {
	if len(w.bad) > 0 {
		return w.ef.finding(w.src, false, Violated, w.bad[0], w.badPath)
	}
	if len(w.und) > 0 {
		return w.ef.finding(w.src, false, Undecided, w.und[0], nil)
	}
	var ids []string
	for k := range w.idioms {
		ids = append(ids, k)
	}
	sort.Strings(ids)
	return w.ef.finding(w.src, true, Discharged, strings.Join(ids, "; "), nil)
}

func (w *efWalker) idiom(s string) {
	if w.idioms == nil {
		w.idioms = map[string]bool{}
	}
	w.idioms[s] = true
}

func (w *efWalker) fail(msg string, path []string, at ast.Node) {
	w.bad = append(w.bad, msg+" (at "+w.ef.c.pos(at.Pos())+")")
	if w.badPath == nil {
		w.badPath = append(append([]string{}, path...), w.ef.c.pos(at.Pos()))
	}
}

func aliasKey(t *tracked) string {
	var s []string
	for _, p := range t.places {
		s = append(s, fmt.Sprintf("%p%s", p.v, p.path))
	}
	sort.Strings(s)
	return strings.Join(s, ",")
}

func (w *efWalker) branch(b *cfg.Block, cond ast.Expr, st absState, t *tracked, path []string) {
	for k, want := range []bool{true, false} {
		if k >= len(b.Succs) {
			break
		}
		for _, s2 := range w.ef.refine(cond, want, st, t) {
			p2 := append(append([]string{}, path...), fmt.Sprintf("%s [%s is %v => %s]", w.ef.c.pos(cond.Pos()), types.ExprString(cond), want, s2))
			if s2 == stZ {
				w.idiom("nil-tested")
				continue
			}
			if s2 == stS {
				w.idiom("sentinel tolerated")
				continue
			}
			t2 := t
			if t.call != nil {
				// after the condition the call value is no longer addressable
				if s2 == stN || s2 == stU {
					// value can only be accounted for by what follows on this branch
				}
			}
			w.walk(b.Succs[k], 0, s2, t2, p2)
		}
	}
}

// walk explores forward from node idx of block b with the tracked value in state st.
func (w *efWalker) walk(b *cfg.Block, idx int, st absState, t *tracked, path []string) {
	w.steps++
	if w.steps > 20000 {
		w.und = append(w.und, "path exploration budget exceeded")
		return
	}
	if idx == 0 {
		key := fmt.Sprintf("%d|%d|%s", b.Index, st, aliasKey(t))
		if w.seen[key] {
			return
		}
		w.seen[key] = true
	}
	ef := w.ef
	for i := idx; i < len(b.Nodes); i++ {
		n := b.Nodes[i]
		isCond := len(b.Succs) == 2 && i == len(b.Nodes)-1
		if isCond {
			if cond, ok := n.(ast.Expr); ok {
				if tag, isCase := ef.caseTag[cond]; isCase {
					cond = &ast.BinaryExpr{X: tag, Op: token.EQL, Y: cond}
				}
				w.branch(b, cond, st, t, path)
				return
			}
		}
		switch s := n.(type) {
		case *ast.ReturnStmt:
			w.atReturn(s, st, t, path)
			return
		case *ast.AssignStmt:
			// the tracked value copied to another place / wrapped / overwritten
			handled := false
			for li, lhs := range s.Lhs {
				lp, lok := ef.placeOf(lhs)
				var rhs ast.Expr
				if len(s.Rhs) == len(s.Lhs) {
					rhs = s.Rhs[li]
				} else if len(s.Rhs) == 1 {
					rhs = s.Rhs[0]
				}
				rhsMentions := rhs != nil && w.mentionsTracked(rhs, t)
				lhsTracked := lok && containsPlace(t.places, lp)
				switch {
				case lhsTracked && rhsMentions:
					// err = fmt.Errorf("...%w", err): still the same obligation
					w.idiom("wrapped")
					handled = true
				case lhsTracked && !rhsMentions:
					// overwritten
					rest := removePlace(t.places, lp)
					if len(rest) == 0 {
						if st == stU || st == stN {
							w.fail(fmt.Sprintf("error in %s overwritten while %s", lp, st), path, s)
							return
						}
					}
					t = &tracked{places: rest}
					handled = true
				case !lhsTracked && rhsMentions && lok:
					if lp.field {
						// stored into a field: sticky-error idiom (the owner tests the field)
						if isErrorType(ef.info.TypeOf(lhs)) {
							w.idiom("stored in error field " + lp.String())
							return
						}
					}
					// alias: w = v
					t = &tracked{places: append(append([]place{}, t.places...), lp)}
					handled = true
				}
			}
			if handled {
				continue
			}
		}
		// any other mention: argument of a terminal call discharges; closures capturing => undecided
		if w.mentionsTracked(n, t) {
			term := false
			lit := false
			ast.Inspect(n, func(x ast.Node) bool {
				switch x := x.(type) {
				case *ast.CallExpr:
					if ef.isTerminal(x) && w.mentionsTracked(x, t) {
						term = true
					}
				case *ast.FuncLit:
					if w.mentionsTracked(x, t) {
						lit = true
					}
				}
				return true
			})
			if term {
				w.idiom("terminal call")
				return
			}
			if lit {
				w.und = append(w.und, "error variable captured by a function literal at "+ef.c.pos(n.Pos()))
				return
			}
		}
	}
	if len(b.Succs) == 0 {
		// end of function (fallthrough off the end) or panic
		if len(b.Nodes) > 0 {
			if es, ok := b.Nodes[len(b.Nodes)-1].(*ast.ExprStmt); ok {
				if call, ok := es.X.(*ast.CallExpr); ok && ef.isTerminal(call) {
					w.idiom("terminal call")
					return
				}
			}
		}
		w.atExit(st, t, path, b)
		return
	}
	for _, s := range b.Succs {
		w.walk(s, 0, st, t, path)
	}
}

func containsPlace(ps []place, p place) bool {
	for _, q := range ps {
		if q == p {
			return true
		}
	}
	return false
}
func removePlace(ps []place, p place) []place {
	var out []place
	for _, q := range ps {
		if q != p {
			out = append(out, q)
		}
	}
	return out
}

func (w *efWalker) mentionsTracked(n ast.Node, t *tracked) bool {
	for _, p := range t.places {
		if w.ef.mentions(n, p) {
			return true
		}
	}
	if t.call != nil {
		found := false
		ast.Inspect(n, func(x ast.Node) bool {
			if x == ast.Node(t.call) {
				found = true
			}
			return !found
		})
		return found
	}
	return false
}

// fieldTestedSomewhere: the sticky-error idiom requires that some method of
// the same receiver type tests the field.
func (ef *errFlow) fieldTestedSomewhere(f *efFunc, p place) bool {
	fieldName := p.path[strings.LastIndex(p.path, ".")+1:]
	for _, g := range ef.funcs {
		// only methods of the type that owns the field count (the owner re-tests its sticky error)
		if g.recv == nil || p.v == nil || !types.Identical(g.recv.Type(), p.v.Type()) {
			continue
		}
		found := false
		ast.Inspect(g.body, func(x ast.Node) bool {
			be, ok := x.(*ast.BinaryExpr)
			if !ok || (be.Op != token.NEQ && be.Op != token.EQL) {
				return true
			}
			for _, side := range []ast.Expr{be.X, be.Y} {
				if se, ok := ast.Unparen(side).(*ast.SelectorExpr); ok && se.Sel.Name == fieldName {
					if sel := ef.info.Selections[se]; sel != nil && sel.Kind() == types.FieldVal && isErrorType(sel.Type()) {
						found = true
					}
				}
			}
			return !found
		})
		if found {
			return true
		}
	}
	return false
}

func (w *efWalker) atReturn(rs *ast.ReturnStmt, st absState, t *tracked, path []string) {
	ef := w.ef
	f := w.src.f
	if f.sig == nil {
		w.und = append(w.und, "function literal without signature")
		return
	}
	res := f.sig.Results()
	errIdx := errorIndexes(res)
	if len(rs.Results) == 0 {
		// bare return: discharged if a tracked place is a named error result
		for _, p := range t.places {
			for _, r := range f.errRes {
				if p.v == r && p.path == "" {
					w.idiom("returned (named result)")
					return
				}
			}
		}
		for _, p := range t.places {
			if p.field && ef.fieldTestedSomewhere(f, p) {
				w.idiom("sticky error field " + p.String() + " (tested by the owner's methods)")
				return
			}
		}
		w.fail(fmt.Sprintf("bare return while the error is %s and not a named result", st), path, rs)
		return
	}
	if w.mentionsTracked(rs, t) {
		w.idiom("returned")
		return
	}
	for _, p := range t.places {
		if p.field && ef.fieldTestedSomewhere(f, p) {
			w.idiom("sticky error field " + p.String() + " (tested by the owner's methods)")
			return
		}
	}
	if len(errIdx) == 0 {
		w.fail(fmt.Sprintf("function returns without an error result while the error is %s", st), path, rs)
		return
	}
	if st == stN {
		// a different non-nil error value is acceptable
		if len(rs.Results) == res.Len() {
			e := ast.Unparen(rs.Results[errIdx[len(errIdx)-1]])
			if ef.definitelyNonNilError(e) {
				w.idiom("non-nil branch returns another error")
				return
			}
			w.fail("non-nil error branch returns "+types.ExprString(e)+", which may be nil", path, rs)
			return
		}
	}
	w.fail(fmt.Sprintf("return does not carry the error while it is %s", st), path, rs)
}

func (ef *errFlow) definitelyNonNilError(e ast.Expr) bool {
	switch e := e.(type) {
	case *ast.CallExpr:
		if f := ef.calleeFunc(e); f != nil && f.Pkg() != nil {
			switch f.Pkg().Path() + "." + f.Name() {
			case "fmt.Errorf", "errors.New":
				return true
			}
		}
	case *ast.SelectorExpr:
		// package-level error variable of another package (segment.ErrClosed)
		if v, ok := ef.info.Uses[e.Sel].(*types.Var); ok && v.Pkg() != nil && v.Parent() == v.Pkg().Scope() && strings.HasPrefix(v.Name(), "Err") {
			return true
		}
	case *ast.Ident:
		if v, ok := ef.info.Uses[e].(*types.Var); ok && v.Pkg() != nil && v.Parent() == v.Pkg().Scope() && strings.HasPrefix(v.Name(), "Err") {
			return true
		}
	}
	return false
}

func (w *efWalker) atExit(st absState, t *tracked, path []string, b *cfg.Block) {
	f := w.src.f
	// falling off the end of a function
	for _, p := range t.places {
		if p.field {
			if w.ef.fieldTestedSomewhere(f, p) {
				w.idiom("sticky error field " + p.String())
				return
			}
		}
		for _, r := range f.errRes {
			if p.v == r && p.path == "" {
				w.idiom("returned (named result)")
				return
			}
		}
	}
	var at ast.Node = f.body
	if len(b.Nodes) > 0 {
		at = b.Nodes[len(b.Nodes)-1]
	}
	w.fail(fmt.Sprintf("function ends while the error is %s", st), path, at)
}
