package main

// Ownership / sharing rules built on the provenance engine (E5), the store
// census (E1), the lockset (E2) and reachability (E3).

import (
	"fmt"
	"go/token"
	"go/types"
	"sort"
	"strings"

	"golang.org/x/tools/go/ssa"
)

const roaringPath = "github.com/RoaringBitmap/roaring"

// E6 (i): purity table of *roaring.Bitmap methods.  The table must cover the
// whole exported method set (checked against go/types on every run).
var roaringPure = map[string]bool{
	"AndCardinality": true, "Clone": true, "Contains": true, "ContainsInt": true, "Equals": true,
	"GetCardinality": true, "GetCopyOnWrite": true, "GetSerializedSizeInBytes": true, "GetSizeInBytes": true,
	"HasRunCompression": true, "Intersects": true, "IsEmpty": true, "Iterate": true, "Iterator": true,
	"ManyIterator": true, "MarshalBinary": true, "Maximum": true, "Minimum": true, "OrCardinality": true,
	"Rank": true, "ReverseIterator": true, "Select": true, "Stats": true, "String": true, "ToArray": true,
	"ToBase64": true, "ToBytes": true, "WriteTo": true, "GetFrozenSizeInBytes": true, "Freeze": true,
	"FreezeTo": true, "WriteFrozenTo": true, "Checksum": true, "ContainsInt64": true,
}
var roaringMutating = map[string]bool{
	"Add": true, "AddInt": true, "AddMany": true, "AddRange": true, "And": true, "AndNot": true,
	"CheckedAdd": true, "CheckedRemove": true, "Clear": true, "CloneCopyOnWriteContainers": true,
	"Flip": true, "FlipInt": true, "FromBase64": true, "FromBuffer": true, "FrozenView": true,
	"MustFrozenView": true, "Or": true, "ReadFrom": true, "Remove": true, "RemoveRange": true,
	"RunOptimize": true, "SetCopyOnWrite": true, "UnmarshalBinary": true, "Xor": true, "AndAny": true,
	"FromDense": true, "FromUnsafeBytes": true,
}

func (c *Ctx) checkRoaringTable() {
	var bm *types.Named
	for _, imp := range c.Root.Types.Imports() {
		if imp.Path() == roaringPath {
			if tn, ok := imp.Scope().Lookup("Bitmap").(*types.TypeName); ok {
				bm, _ = tn.Type().(*types.Named)
			}
		}
	}
	if bm == nil {
		panic(infra("roaring.Bitmap not found among the imports of the root package"))
	}
	ms := types.NewMethodSet(types.NewPointer(bm))
	for i := 0; i < ms.Len(); i++ {
		m := ms.At(i).Obj()
		if !m.Exported() {
			continue
		}
		if !roaringPure[m.Name()] && !roaringMutating[m.Name()] {
			panic(infra("roaring.Bitmap method %s is not classified pure/mutating in the checker's table (dependency upgrade? review and extend the table)", m.Name()))
		}
	}
}

func isRoaringBitmapPtr(t types.Type) bool { return isNamed(t, roaringPath, "Bitmap") && isPointer(t) }
func isPointer(t types.Type) bool          { _, ok := t.Underlying().(*types.Pointer); return ok }

// ownership hooks: who owns a value.
func (c *Ctx) ownershipProv() *prov {
	es := c.entries()
	apiSet := map[*ssa.Function]bool{}
	for _, f := range es.API {
		apiSet[f] = true
	}
	for _, f := range es.CTOR {
		apiSet[f] = true
	}
	seg := c.NamedType("Segment").Obj()
	h := provHooks{}
	var pp *prov
	h.param = func(fn *ssa.Function, idx int) labelSet {
		if apiSet[fn] {
			return lbl("Caller", fmt.Sprintf("parameter %d of exported %s", idx, fnName(fn)))
		}
		return nil
	}
	h.field = func(k fieldKey) (labelSet, bool) {
		if k.owner == seg {
			return lbl("SharedSegment", "loaded from Segment."+k.field), true
		}
		return nil, false
	}
	h.call = func(call *ssa.Call, idx int) (labelSet, bool) {
		sc := call.Call.StaticCallee()
		if sc == nil {
			if call.Call.IsInvoke() {
				return lbl("External", "result of interface call "+call.Call.Method.Name()), true
			}
			return nil, false
		}
		if c.inRoot(sc) {
			return nil, false
		}
		full := funcFullName(sc)
		switch {
		case isDataRead(&call.Call):
			return lbl("SegmentData", "bytes returned by Data.Read at "+c.pos(call.Pos())), true
		case strings.HasPrefix(full, roaringPath+"."):
			// constructors and pure combinators return fresh bitmaps; iterators are fresh cursors
			return lbl("Fresh", full+" at "+c.pos(call.Pos())), true
		case full == "sync.(*Pool).Get":
			return lbl("Fresh", "pooled scratch object (exclusively owned between Get and Put)"), true
		case strings.HasPrefix(full, "bytes.") || strings.HasPrefix(full, "bufio.") || strings.HasPrefix(full, "fmt.") || strings.HasPrefix(full, "errors."):
			return lbl("Fresh", full), true
		case strings.HasPrefix(full, "github.com/blevesearch/vellum."):
			return lbl("External", full), true
		case strings.HasPrefix(full, "github.com/klauspost/compress/zstd."):
			// EncodeAll/DecodeAll append to and return the destination argument (or a fresh, grown copy)
			if (sc.Name() == "EncodeAll" || sc.Name() == "DecodeAll") && len(call.Call.Args) == 3 && pp != nil {
				out := lbl("Fresh", full+" (grown destination)")
				out.addAll(pp.val(call.Call.Args[2]))
				return out, true
			}
			return lbl("External", full), true
		}
		return lbl("External", full), true
	}
	h.global = func(g *ssa.Global) (labelSet, bool) {
		return lbl("Global:"+g.Name(), "package variable "+g.Name()), true
	}
	// shared singletons (package-level *T of a root struct type, e.g. emptyPostingsList) are handed
	// out to callers and can come back through any caller-supplied value of that type
	singles := c.singletons()
	h.value = func(v ssa.Value) (labelSet, bool) {
		ta, ok := v.(*ssa.TypeAssert)
		if !ok || pp == nil {
			return nil, false
		}
		n := namedOf(ta.AssertedType)
		if n == nil || !isPointer(ta.AssertedType) {
			return nil, false
		}
		g := singles[n.Obj()]
		if g == nil {
			return nil, false
		}
		out := labelSet{}
		out.addAll(pp.val(ta.X))
		if out.has("Caller") {
			out["Global:"+g.Name()] = "a caller can hand back the shared singleton " + g.Name() + " it was given"
		}
		return out, true
	}
	p := newProv(c, h)
	pp = p
	return p
}

// singletons: package-level variables of type *T (T a struct type of the root
// package) — the shared "empty" objects.
func (c *Ctx) singletons() map[*types.TypeName]*ssa.Global {
	out := map[*types.TypeName]*ssa.Global{}
	for _, m := range c.SSA.Members {
		g, ok := m.(*ssa.Global)
		if !ok {
			continue
		}
		pt, ok := g.Type().(*types.Pointer).Elem().(*types.Pointer)
		if !ok {
			continue
		}
		n, ok := pt.Elem().(*types.Named)
		if !ok || n.Obj().Pkg() != c.Root.Types {
			continue
		}
		if _, ok := n.Underlying().(*types.Struct); ok {
			out[n.Obj()] = g
		}
	}
	return out
}

func hasPrefixLabel(l labelSet, pre string) (string, bool) {
	for _, n := range l.names() {
		if strings.HasPrefix(n, pre) {
			return n, true
		}
	}
	return "", false
}

// storeBase returns the object pointer a store writes into and a description:
// field store (base of FieldAddr chain), element store (the container value).
func storeBase(addr ssa.Value) (base ssa.Value, container ssa.Value, desc string) {
	switch a := addr.(type) {
	case *ssa.FieldAddr:
		owner, f := fieldAddrInfo(a)
		on := "?"
		if owner != nil {
			on = owner.Obj().Name()
		}
		// nested struct fields: i.entry.term -> base is i
		b := a.X
		for {
			if fa, ok := b.(*ssa.FieldAddr); ok {
				b = fa.X
				continue
			}
			break
		}
		return b, nil, "field " + on + "." + f.Name()
	case *ssa.IndexAddr:
		return nil, a.X, "element of " + stableName(a.X)
	}
	return nil, nil, ""
}

// stableName: access path, or the type when the path is just an SSA register
// (register numbers are not stable obligation keys).
func stableName(v ssa.Value) string {
	ap := accessPath(v)
	if len(ap) > 1 && ap[0] == 't' && ap[1] >= '0' && ap[1] <= '9' && !strings.Contains(ap, ".") {
		return "a " + v.Type().String()
	}
	return ap
}

type writeSite struct {
	fn   *ssa.Function
	ins  ssa.Instruction
	base ssa.Value // object written into (pointer) – nil for container element writes
	cont ssa.Value // container written into – nil for field writes
	desc string
	glob *ssa.Global
}

// destination-parameter table: calls that write through an argument.
func destArg(cc *ssa.CallCommon) (int, bool) {
	if b, ok := cc.Value.(*ssa.Builtin); ok {
		if b.Name() == "copy" {
			return 0, true
		}
		if b.Name() == "append" {
			// append writes into the destination's backing array whenever its
			// capacity allows (always after a re-slice to [:0] or [:n])
			return 0, true
		}
		return 0, false
	}
	sc := cc.StaticCallee()
	if sc == nil {
		return 0, false
	}
	switch funcFullName(sc) {
	case rootPkgPath + ".ZSTDDecompress", rootPkgPath + ".ZSTDCompress":
		return 0, true
	case "sort.Strings", "sort.Ints", "sort.Float64s", "sort.Slice", "sort.SliceStable", "sort.Sort", "sort.Stable":
		return 0, true // sorts its argument in place
	case "encoding/binary.PutUvarint", "encoding/binary.PutVarint":
		return 0, true
	case "github.com/klauspost/compress/zstd.(*Decoder).DecodeAll", "github.com/klauspost/compress/zstd.(*Encoder).EncodeAll":
		return 2, true // (recv, src, dst)
	}
	if sc.Pkg != nil && sc.Pkg.Pkg.Path() == "encoding/binary" && strings.HasPrefix(sc.Name(), "PutUint") {
		return 1, true // (order, b, v)
	}
	return 0, false
}

func (c *Ctx) writeSitesIn(fn *ssa.Function) []writeSite {
	var out []writeSite
	for _, b := range fn.Blocks {
		for _, ins := range b.Instrs {
			switch x := ins.(type) {
			case *ssa.Store:
				if g, ok := x.Addr.(*ssa.Global); ok {
					out = append(out, writeSite{fn: fn, ins: ins, glob: g, desc: "package variable " + g.Name()})
					continue
				}
				base, cont, desc := storeBase(x.Addr)
				if base != nil || cont != nil {
					out = append(out, writeSite{fn: fn, ins: ins, base: base, cont: cont, desc: desc})
					continue
				}
				// whole-object store through a pointer: *p = T{}
				if _, isAlloc := x.Addr.(*ssa.Alloc); !isAlloc {
					if _, isFV := x.Addr.(*ssa.FreeVar); !isFV {
						out = append(out, writeSite{fn: fn, ins: ins, base: x.Addr, desc: "whole object *" + accessPath(x.Addr)})
					}
				}
			case *ssa.MapUpdate:
				out = append(out, writeSite{fn: fn, ins: ins, cont: x.Map, desc: "map entry of " + stableName(x.Map)})
			case ssa.CallInstruction:
				if i, ok := destArg(x.Common()); ok && i < len(x.Common().Args) {
					out = append(out, writeSite{fn: fn, ins: ins, cont: x.Common().Args[i], desc: "destination argument of " + calleeFullName(x.Common())})
				}
			}
		}
	}
	return out
}

// inOnceDo: fn is a function literal passed directly to (*sync.Once).Do
// (as a closure, or as a plain function value when it captures nothing).
func (c *Ctx) inOnceDo(fn *ssa.Function) bool {
	return c.inOnceDoRec(fn, map[*ssa.Function]bool{})
}

func (c *Ctx) inOnceDoRec(fn *ssa.Function, seen map[*ssa.Function]bool) bool {
	if seen[fn] {
		return false
	}
	seen[fn] = true
	if c.passedToOnceDo(fn) {
		return true
	}
	// a named function that is only ever called from code running under Once.Do
	sites := c.callsTo(fn)
	if len(sites) == 0 || fn.Parent() != nil {
		return false
	}
	for _, site := range sites {
		if !c.inOnceDoRec(site.Parent(), seen) {
			return false
		}
	}
	// and never used as a value elsewhere
	return !c.usedAsValueOutsideOnce(fn)
}

// usedAsValueOutsideOnce: fn appears as an operand other than as the callee of a call or the argument of Once.Do.
func (c *Ctx) usedAsValueOutsideOnce(fn *ssa.Function) bool {
	for _, f := range c.srcFns {
		for _, b := range f.Blocks {
			for _, ins := range b.Instrs {
				for _, op := range ins.Operands(nil) {
					if op == nil || *op != ssa.Value(fn) {
						continue
					}
					if ci, ok := ins.(ssa.CallInstruction); ok {
						if ci.Common().Value == ssa.Value(fn) {
							continue
						}
						if sc := ci.Common().StaticCallee(); sc != nil && funcFullName(sc) == "sync.(*Once).Do" {
							continue
						}
					}
					return true
				}
			}
		}
	}
	return false
}

func (c *Ctx) passedToOnceDo(fn *ssa.Function) bool {
	isDo := func(ins ssa.Instruction) bool {
		call, ok := ins.(ssa.CallInstruction)
		if !ok {
			return false
		}
		sc := call.Common().StaticCallee()
		return sc != nil && funcFullName(sc) == "sync.(*Once).Do"
	}
	for _, mc := range c.census().closures[fn] {
		if mc.Referrers() == nil {
			continue
		}
		for _, ref := range *mc.Referrers() {
			if isDo(ref) {
				return true
			}
		}
	}
	for _, f := range c.srcFns {
		for _, b := range f.Blocks {
			for _, ins := range b.Instrs {
				if !isDo(ins) {
					continue
				}
				for _, a := range ins.(ssa.CallInstruction).Common().Args {
					if a == ssa.Value(fn) {
						return true
					}
				}
			}
		}
	}
	return false
}

func init() {
	register(&Rule{
		Name:  "SHARED-WRITE",
		Floor: 20,
		Doc:   "in every function reachable from the read API or from a merge, each write (field store, element store, map update, whole-object store, destination-argument call) whose target object is a *Segment, is reachable from a Segment field, or is a package-level variable, happens with the segment mutex must-held or inside a function literal passed to sync.Once.Do; fields written under the lock form the guarded set and every read of them holds the lock too. Implies: no data race originates in ice for any schedule, and a nested read cannot disturb the outer one",
		Run: func(c *Ctx, scope string, r *Report) {
			es := c.entries()
			p := c.ownershipProv()
			seg := c.NamedType("Segment")
			guarded := map[string]bool{}
			locks := map[*ssa.Function]*lockResult{}
			nWrites, nFns := 0, 0
			var fns []*ssa.Function
			for fn := range es.READ {
				fns = append(fns, fn)
			}
			sort.Slice(fns, func(i, j int) bool { return fns[i].Pos() < fns[j].Pos() })
			for _, fn := range fns {
				nFns++
				lr := lockAnalyse(fn)
				locks[fn] = lr
				once := c.inOnceDo(fn)
				for _, w := range c.writeSitesIn(fn) {
					nWrites++
					key := fnName(fn) + "/" + w.desc
					held := len(lr.must[w.ins]) > 0
					var labels labelSet
					target := ""
					switch {
					case w.glob != nil:
						labels = lbl("Global:"+w.glob.Name(), "direct store")
						target = "package variable " + w.glob.Name()
					case w.base != nil:
						labels = p.ClassifyAt(w.base, w.ins.Block())
						target = w.desc
					default:
						labels = p.ClassifyAt(w.cont, w.ins.Block())
						target = w.desc
					}
					isSegBase := w.base != nil && namedOf(w.base.Type()) != nil && namedOf(w.base.Type()).Obj() == seg.Obj()
					shared, why := "", ""
					if isSegBase {
						for _, n := range labels.names() {
							if n != "Fresh" {
								shared, why = "a *Segment that is not freshly allocated here", labels[n]
							}
						}
					}
					if n, ok := hasPrefixLabel(labels, "SharedSegment"); ok {
						shared, why = "memory reachable from a Segment field", labels[n]
					}
					if n, ok := hasPrefixLabel(labels, "Global:"); ok {
						shared, why = "package-level state ("+n+")", labels[n]
					}
					if n, ok := hasPrefixLabel(labels, "SegmentData"); ok {
						shared, why = "the segment's mapped bytes", labels[n]
					}
					if shared == "" {
						if labels.has("Unknown") {
							r.undecided(key, fnName(fn), c.pos(w.ins.Pos()), "cannot determine what "+target+" points into: "+labels["Unknown"])
							continue
						}
						r.ok(key, fnName(fn), c.pos(w.ins.Pos()), "write to "+target+" targets per-call/per-caller memory "+labels.String())
						continue
					}
					if held {
						r.ok(key, fnName(fn), c.pos(w.ins.Pos()), "write to shared "+target+" with the mutex must-held")
						if isSegBase || strings.HasPrefix(w.desc, "map entry") || strings.HasPrefix(w.desc, "element") {
							// record guarded field
							if f := segFieldOf(w, seg); f != "" {
								guarded[f] = true
							}
						}
						continue
					}
					if once {
						r.ok(key, fnName(fn), c.pos(w.ins.Pos()), "write to "+target+" inside sync.Once.Do")
						continue
					}
					r.bad(key, fnName(fn), c.pos(w.ins.Pos()), "unsynchronised write to "+target+": it is "+shared+" and no lock is held", "provenance: "+why)
				}
			}
			// guarded fields: every read holds the lock
			for _, fn := range fns {
				lr := locks[fn]
				for _, b := range fn.Blocks {
					for _, ins := range b.Instrs {
						ld, ok := ins.(*ssa.UnOp)
						if !ok || ld.Op != token.MUL {
							continue
						}
						fa, ok := ld.X.(*ssa.FieldAddr)
						if !ok {
							continue
						}
						owner, f := fieldAddrInfo(fa)
						if owner == nil || owner.Obj() != seg.Obj() || !guarded[f.Name()] {
							continue
						}
						key := fnName(fn) + "/read-guarded-" + f.Name()
						if len(lr.must[ins]) > 0 {
							r.ok(key, fnName(fn), c.pos(ins.Pos()), "guarded field Segment."+f.Name()+" read with the mutex held")
						} else {
							r.bad(key, fnName(fn), c.pos(ins.Pos()), "Segment."+f.Name()+" is written under the segment mutex elsewhere but read here without it")
						}
					}
				}
			}
			r.note("%d functions reachable from the %d API roots; %d write sites classified; guarded set %v", nFns, len(es.API), nWrites, keys(guarded))
		},
	})

	register(&Rule{
		Name:  "SINGLETON-GUARD",
		Floor: 4,
		Doc:   "the shared empty singletons (emptyPostingsList, emptyPostingsIterator, emptyDictionary, emptyDictionaryIterator) are handed out to every caller and come back as preallocated arguments: every write through a *PostingsList/*PostingsIterator/*Dictionary/*DictionaryIterator that can be the singleton (it flows there from the package variable or from a caller-supplied value) is dominated by a comparison that diverts the singleton to a fresh object",
		Run: func(c *Ctx, scope string, r *Report) {
			p := c.ownershipProv()
			singles := c.singletons()
			var names []string
			for _, g := range singles {
				names = append(names, g.Name())
			}
			r.note("singletons: %s", strings.Join(sortStrings(names), ", "))
			for _, fn := range c.srcFns {
				if fn.Name() == "init" {
					continue
				}
				for _, w := range c.writeSitesIn(fn) {
					if w.base == nil {
						continue
					}
					n := namedOf(w.base.Type())
					if n == nil || singles[n.Obj()] == nil {
						continue
					}
					g := singles[n.Obj()]
					key := fnName(fn) + "/" + w.desc
					// receivers of the type's own methods are the iteration-state case (b), handled by emptiness tests
					if fn.Signature.Recv() != nil && rootParam(w.base) == ssa.Value(fn.Params[0]) && !p.Classify(w.base).has("Global:"+g.Name()) {
						continue
					}
					labels := p.ClassifyAt(w.base, w.ins.Block())
					if labels.has("Global:" + g.Name()) {
						r.bad(key, fnName(fn), c.pos(w.ins.Pos()), "write to "+w.desc+" through a pointer that can be the shared singleton "+g.Name()+" (no dominating comparison diverts it)", "provenance: "+labels["Global:"+g.Name()])
					} else {
						r.ok(key, fnName(fn), c.pos(w.ins.Pos()), "cannot be the singleton here "+labels.String())
					}
				}
			}
		},
	})

	register(&Rule{
		Name:  "SEG-IMMUT",
		Floor: 10,
		Doc:   "in every function reachable from the read API, persist or merge there is no store at all (locked or not) to an observable field of a shared Segment or of its footer, nor to elements of the slices/maps they hold; only the lock-guarded FST cache (Segment.fieldFSTs) is exempt. New fields default to observable",
		Run: func(c *Ctx, scope string, r *Report) {
			es := c.entries()
			p := c.ownershipProv()
			seg := c.NamedType("Segment")
			ft := c.NamedType("footer")
			cache := map[string]bool{"fieldFSTs": true}
			var fns []*ssa.Function
			for fn := range es.READ {
				fns = append(fns, fn)
			}
			sort.Slice(fns, func(i, j int) bool { return fns[i].Pos() < fns[j].Pos() })
			for _, fn := range fns {
				for _, w := range c.writeSitesIn(fn) {
					key := fnName(fn) + "/" + w.desc
					var v ssa.Value = w.base
					if v == nil {
						v = w.cont
					}
					if v == nil {
						continue
					}
					n := namedOf(v.Type())
					isSeg := w.base != nil && n != nil && n.Obj() == seg.Obj()
					isFooter := w.base != nil && n != nil && n.Obj() == ft.Obj()
					labels := p.Classify(v)
					if isSeg {
						if f := segFieldOf(w, seg); cache[f] {
							r.ok(key, fnName(fn), c.pos(w.ins.Pos()), "cache field")
							continue
						}
						if len(labels) == 1 && labels.has("Fresh") {
							r.ok(key, fnName(fn), c.pos(w.ins.Pos()), "freshly allocated Segment")
							continue
						}
						r.bad(key, fnName(fn), c.pos(w.ins.Pos()), "store to "+w.desc+" of an existing Segment on the read/persist/merge path: segments are immutable")
						continue
					}
					if _, ok := hasPrefixLabel(labels, "SharedSegment"); ok {
						if f := segFieldOf(w, seg); cache[f] {
							r.ok(key, fnName(fn), c.pos(w.ins.Pos()), "cache field")
							continue
						}
						what := "memory reachable from a Segment"
						if isFooter {
							what = "the footer of a Segment"
						}
						r.bad(key, fnName(fn), c.pos(w.ins.Pos()), "write to "+w.desc+" which is "+what+": "+labels[firstWith(labels, "SharedSegment")])
						continue
					}
					if labels.has("Unknown") && (isFooter) {
						r.undecided(key, fnName(fn), c.pos(w.ins.Pos()), "cannot determine the footer's origin: "+labels["Unknown"])
						continue
					}
					r.ok(key, fnName(fn), c.pos(w.ins.Pos()), "not segment state "+labels.String())
				}
			}
		},
	})

	register(&Rule{
		Name:  "BITMAP-OWNERSHIP",
		Floor: 8,
		Doc:   "the receiver of every mutating *roaring.Bitmap method call is owned by ice (freshly allocated or held in ice-private fields whose every store is fresh): never a bitmap supplied by a caller (Merge drops, PostingsList except, ReplaceActual argument) — interprocedural through parameters; the purity table must cover roaring's whole method set. Writes into caller-supplied slices of bitmaps are flagged likewise",
		Run: func(c *Ctx, scope string, r *Report) {
			c.checkRoaringTable()
			p := c.ownershipProv()
			exemptFn := map[string]string{"(*PostingsList).OrInto": "the receiver parameter is an out-parameter by contract"}
			for _, fn := range c.srcFns {
				for _, b := range fn.Blocks {
					for _, ins := range b.Instrs {
						ci, ok := ins.(ssa.CallInstruction)
						if !ok {
							continue
						}
						cc := ci.Common()
						sc := cc.StaticCallee()
						if sc == nil || sc.Signature.Recv() == nil || !isRoaringBitmapPtr(sc.Signature.Recv().Type()) {
							continue
						}
						if !roaringMutating[sc.Name()] {
							continue
						}
						key := fnName(fn) + "/Bitmap." + sc.Name()
						if why, ok := exemptFn[fnName(fn)]; ok {
							r.ok(key, fnName(fn), c.pos(ins.Pos()), "exempt: "+why)
							continue
						}
						labels := p.Classify(cc.Args[0])
						if labels.has("Caller") {
							r.bad(key, fnName(fn), c.pos(ins.Pos()), "mutating "+sc.Name()+"() on a bitmap that can be one supplied by the caller", "provenance: "+labels["Caller"])
							continue
						}
						if labels.has("Unknown") || labels.has("External") || labels.has("Uncalled") {
							r.undecided(key, fnName(fn), c.pos(ins.Pos()), "cannot establish who owns the receiver of "+sc.Name()+"(): "+labels.String()+" "+labels[firstWith(labels, "Unknown")])
							continue
						}
						r.ok(key, fnName(fn), c.pos(ins.Pos()), "receiver is owned by ice "+labels.String())
					}
				}
				// stores into caller-supplied containers of bitmaps
				for _, w := range c.writeSitesIn(fn) {
					if w.cont == nil {
						continue
					}
					sl, ok := w.cont.Type().Underlying().(*types.Slice)
					if !ok || !isRoaringBitmapPtr(sl.Elem()) {
						continue
					}
					key := fnName(fn) + "/store-into-bitmap-slice"
					labels := p.Classify(w.cont)
					if labels.has("Caller") {
						r.bad(key, fnName(fn), c.pos(w.ins.Pos()), "store into an element of a bitmap slice supplied by the caller", "provenance: "+labels["Caller"])
					} else {
						r.ok(key, fnName(fn), c.pos(w.ins.Pos()), "slice is ice-owned "+labels.String())
					}
				}
			}
		},
	})

	register(&Rule{
		Name:  "DATA-READONLY",
		Floor: 10,
		Doc:   "no write sink ([]byte element store, copy/append destination, destination-argument calls such as ZSTDDecompress, binary.PutUvarint) is applied to bytes obtained from segment.Data.Read: the segment's (possibly memory-mapped) data is only ever sliced, never written",
		Run: func(c *Ctx, scope string, r *Report) {
			p := c.ownershipProv()
			for _, fn := range c.srcFns {
				for _, w := range c.writeSitesIn(fn) {
					if w.cont == nil || !isByteSlice(w.cont.Type()) {
						continue
					}
					key := fnName(fn) + "/" + w.desc
					labels := p.Classify(w.cont)
					if labels.has("SegmentData") {
						r.bad(key, fnName(fn), c.pos(w.ins.Pos()), "write into bytes that come from segment.Data.Read", "provenance: "+labels["SegmentData"])
					} else if labels.has("Unknown") || labels.has("External") {
						r.undecided(key, fnName(fn), c.pos(w.ins.Pos()), "cannot establish where the destination bytes come from: "+labels.String(), labels["Unknown"], labels["External"])
					} else {
						r.ok(key, fnName(fn), c.pos(w.ins.Pos()), "destination is not segment data "+labels.String())
					}
				}
				// append(dst, ...) where dst is segment data (may write in place when capacity allows)
				for _, b := range fn.Blocks {
					for _, ins := range b.Instrs {
						call, ok := ins.(*ssa.Call)
						if !ok {
							continue
						}
						if bi, ok := call.Call.Value.(*ssa.Builtin); ok && bi.Name() == "append" && isByteSlice(call.Call.Args[0].Type()) {
							key := fnName(fn) + "/append"
							labels := p.Classify(call.Call.Args[0])
							if labels.has("SegmentData") {
								r.bad(key, fnName(fn), c.pos(ins.Pos()), "append onto a slice of segment data can overwrite the bytes after it", "provenance: "+labels["SegmentData"])
							} else {
								r.ok(key, fnName(fn), c.pos(ins.Pos()), "append destination is not segment data")
							}
						}
					}
				}
			}
		},
	})

	register(&Rule{
		Name:  "CLONE-DISCIPLINE",
		Floor: 2,
		Doc:   "the methods of docValueReader that store into their receiver (derived, today loadDvChunk/visitDocValues/iterateAllDocValues) are only invoked on clones (results of cloneInto, possibly via docVisitState.dvrs), never on a reader held in Segment.fieldDvReaders",
		Run: func(c *Ctx, scope string, r *Report) {
			p := c.ownershipProv()
			dvr := c.NamedType("docValueReader")
			var mut []*ssa.Function
			for _, fn := range c.srcFns {
				if fn.Signature.Recv() == nil || namedOf(fn.Signature.Recv().Type()) == nil || namedOf(fn.Signature.Recv().Type()).Obj() != dvr.Obj() {
					continue
				}
				writes := false
				for _, w := range c.writeSitesIn(fn) {
					if w.base == ssa.Value(fn.Params[0]) {
						writes = true
					}
					if w.cont != nil && strings.HasPrefix(accessPath(w.cont), "*"+fn.Params[0].Name()+".") {
						writes = true
					}
				}
				if writes {
					mut = append(mut, fn)
				}
			}
			var names []string
			for _, m := range mut {
				names = append(names, fnName(m))
			}
			r.note("receiver-mutating docValueReader methods: %s", strings.Join(names, ", "))
			for _, m := range mut {
				for _, site := range c.callsTo(m) {
					fn := site.Parent()
					key := fnName(fn) + "/" + fnName(m)
					labels := p.Classify(site.Common().Args[0])
					if n, ok := hasPrefixLabel(labels, "SharedSegment"); ok {
						r.bad(key, fnName(fn), c.pos(site.Pos()), fnName(m)+" mutates its receiver but is invoked on a reader shared through the segment", "provenance: "+labels[n])
					} else if labels.has("Unknown") {
						r.undecided(key, fnName(fn), c.pos(site.Pos()), "receiver provenance unknown: "+labels["Unknown"])
					} else {
						r.ok(key, fnName(fn), c.pos(site.Pos()), "receiver is a private clone "+labels.String())
					}
				}
			}
		},
	})

	register(&Rule{
		Name:  "ZSTD-STATELESS",
		Floor: 2,
		Doc:   "the package-level zstd encoder/decoder are created only inside sync.Once.Do and are used only through the goroutine-safe stateless EncodeAll/DecodeAll",
		Run: func(c *Ctx, scope string, r *Report) {
			for _, gname := range []string{"encoder", "decoder"} {
				g := c.Global(gname)
				// the one mutex every access outside sync.Once holds (lazy creation under a lock)
				lockOf := func(fn *ssa.Function, ins ssa.Instruction) string {
					for id := range lockAnalyse(fn).must[ins] {
						if c.SSA.Members[id] != nil { // a package-level mutex
							return id
						}
					}
					return ""
				}
				theLock := ""
				// uses of the shared object: only as the receiver of the stateless calls; it may be
				// handed to the caller by an accessor, whose callers are then held to the same
				var checkUses func(v ssa.Value, fn *ssa.Function, synced bool, depth int)
				checkUses = func(v ssa.Value, fn *ssa.Function, synced bool, depth int) {
					if v.Referrers() == nil || depth > 3 {
						return
					}
					for _, ref := range *v.Referrers() {
						key := fnName(fn) + "/use-" + gname
						switch y := ref.(type) {
						case *ssa.DebugRef:
							continue
						case *ssa.BinOp:
							if y.Op == token.EQL || y.Op == token.NEQ {
								if ld, isLd := v.(*ssa.UnOp); isLd && ld.X == ssa.Value(g) && !synced {
									r.bad(key, fnName(fn), c.pos(ref.Pos()), "unsynchronised nil test of package-level "+gname+" (lazy init without sync.Once, not under the lock that guards its creation)")
								} else {
									r.ok(key, fnName(fn), c.pos(ref.Pos()), "nil test under the lock that guards the creation")
								}
								continue
							}
						case *ssa.Store:
							// spilled into the cell of a result (functions with defer) and loaded for the return
							if a, isAlloc := y.Addr.(*ssa.Alloc); isAlloc && y.Val == v {
								for _, r2 := range *a.Referrers() {
									if ld, isLd := r2.(*ssa.UnOp); isLd && ld.Op == token.MUL {
										checkUses(ld, fn, synced, depth)
									}
								}
								continue
							}
						case *ssa.Return:
							if fn.Parent() != nil || !synced {
								break
							}
							idx := -1
							for i, res := range y.Results {
								if res == v {
									idx = i
								}
							}
							for _, site := range c.callsTo(fn) {
								call, isCall := site.(*ssa.Call)
								if !isCall {
									r.bad(key, fnName(fn), c.pos(site.Pos()), "the accessor of the shared "+gname+" is called in a go/defer statement")
									continue
								}
								var res ssa.Value = call
								if fn.Signature.Results().Len() > 1 {
									res = nil
									if ex := tupleParts(call)[idx]; ex != nil {
										res = ex
									}
								}
								if res != nil {
									checkUses(res, site.Parent(), true, depth+1)
								}
							}
							continue
						case ssa.CallInstruction:
							sc := y.Common().StaticCallee()
							if sc != nil && (sc.Name() == "EncodeAll" || sc.Name() == "DecodeAll") && y.Common().Args[0] == v {
								if synced {
									r.ok(key, fnName(fn), c.pos(ref.Pos()), "stateless "+sc.Name()+" on the object obtained under Once.Do / the creation lock")
								} else {
									r.bad(key, fnName(fn), c.pos(ref.Pos()), gname+" used without a dominating sync.Once.Do")
								}
								continue
							}
							r.bad(key, fnName(fn), c.pos(ref.Pos()), "shared "+gname+" used through a stateful API: "+ref.String())
							continue
						}
						r.undecided(key, fnName(fn), c.pos(ref.Pos()), "package-level "+gname+" escapes: "+ref.String())
					}
				}
				for _, fn := range c.srcFns {
					for _, b := range fn.Blocks {
						for _, ins := range b.Instrs {
							switch x := ins.(type) {
							case *ssa.Store:
								if x.Addr == ssa.Value(g) {
									key := fnName(fn) + "/store-" + gname
									lk := lockOf(fn, ins)
									switch {
									case c.inOnceDo(fn):
										r.ok(key, fnName(fn), c.pos(ins.Pos()), "created inside sync.Once.Do")
									case lk != "" && (theLock == "" || theLock == lk):
										theLock = lk
										r.ok(key, fnName(fn), c.pos(ins.Pos()), "created while holding "+lk)
									default:
										r.bad(key, fnName(fn), c.pos(ins.Pos()), "package-level "+gname+" assigned outside sync.Once.Do: concurrent first uses race")
									}
								}
							case *ssa.UnOp:
								if x.Op != token.MUL || x.X != ssa.Value(g) {
									continue
								}
								lk := lockOf(fn, ins)
								synced := c.inOnceDo(fn) || onceDoDominates(fn, x) || (lk != "" && (theLock == "" || theLock == lk))
								if lk != "" && theLock == "" {
									theLock = lk
								}
								checkUses(x, fn, synced, 0)
							}
						}
					}
				}
			}
		},
	})

	register(&Rule{
		Name:  "POOL-SCRATCH",
		Floor: 1,
		Doc:   "every scratch object taken from visitDocumentCtxPool is returned by a deferred Put registered right after the Get (so it is per-call for the whole call, including nested visits), and is never stored into shared memory (covered by SHARED-WRITE)",
		Run: func(c *Ctx, scope string, r *Report) {
			pool := c.Global("visitDocumentCtxPool")
			for _, fn := range c.srcFns {
				for _, b := range fn.Blocks {
					for _, ins := range b.Instrs {
						call, ok := ins.(*ssa.Call)
						if !ok {
							continue
						}
						sc := call.Call.StaticCallee()
						if sc == nil || funcFullName(sc) != "sync.(*Pool).Get" || call.Call.Args[0] != ssa.Value(pool) {
							continue
						}
						key := fnName(fn) + "/Pool.Get"
						// a Defer of Put on the same pool in the same block after the Get
						okDefer := false
						for _, i2 := range b.Instrs[instrIndex(call)+1:] {
							if d, ok := i2.(*ssa.Defer); ok {
								if s2 := d.Call.StaticCallee(); s2 != nil && funcFullName(s2) == "sync.(*Pool).Put" && d.Call.Args[0] == ssa.Value(pool) {
									okDefer = true
								}
							}
							if _, isIf := i2.(*ssa.If); isIf {
								break
							}
						}
						// exactly one Put of this pool in the function (the deferred one): a second Put hands the same
						// context to two readers
						nput := 0
						for _, b2 := range fn.Blocks {
							for _, i2 := range b2.Instrs {
								if ci, ok := i2.(ssa.CallInstruction); ok {
									if s2 := ci.Common().StaticCallee(); s2 != nil && funcFullName(s2) == "sync.(*Pool).Put" && ci.Common().Args[0] == ssa.Value(pool) {
										nput++
									}
								}
							}
						}
						if okDefer && nput > 1 {
							r.bad(key, fnName(fn), c.pos(ins.Pos()), fmt.Sprintf("the pooled context is Put %d times: it would be handed to two readers at once", nput))
						} else if okDefer {
							r.ok(key, fnName(fn), c.pos(ins.Pos()), "Get is paired with exactly one (deferred) Put")
						} else {
							r.bad(key, fnName(fn), c.pos(ins.Pos()), "pooled context is not returned by a deferred Put")
						}
					}
				}
			}
			// no package-level *visitDocumentCtx used as a shared context
			vt := c.NamedType("visitDocumentCtx")
			for name, m := range c.SSA.Members {
				if g, ok := m.(*ssa.Global); ok {
					if n := namedOf(g.Type().(*types.Pointer).Elem()); n != nil && n.Obj() == vt.Obj() {
						r.bad("global/"+name, "", c.pos(g.Pos()), "package-level visitDocumentCtx "+name+": a shared visit context is not per-call")
					}
				}
			}
		},
	})
}

// rootParam strips field/index addressing down to the underlying value.
func rootParam(v ssa.Value) ssa.Value {
	for {
		switch x := v.(type) {
		case *ssa.FieldAddr:
			v = x.X
		case *ssa.IndexAddr:
			v = x.X
		default:
			return v
		}
	}
}

func firstWith(l labelSet, pre string) string {
	for _, n := range l.names() {
		if strings.HasPrefix(n, pre) {
			return n
		}
	}
	return ""
}

// segFieldOf: the Segment field a write goes to / through.
func segFieldOf(w writeSite, seg *types.Named) string {
	var addr ssa.Value
	switch x := w.ins.(type) {
	case *ssa.Store:
		addr = x.Addr
	case *ssa.MapUpdate:
		addr = x.Map
	}
	for addr != nil {
		switch a := addr.(type) {
		case *ssa.FieldAddr:
			owner, f := fieldAddrInfo(a)
			if owner != nil && owner.Obj() == seg.Obj() {
				return f.Name()
			}
			addr = a.X
		case *ssa.IndexAddr:
			addr = a.X
		case *ssa.UnOp:
			addr = a.X
		case *ssa.Slice:
			addr = a.X
		default:
			return ""
		}
	}
	return ""
}

// onceDoDominates: a call to (*sync.Once).Do precedes v in fn (same block
// earlier, or in a dominating block).
func onceDoDominates(fn *ssa.Function, v *ssa.UnOp) bool {
	for _, b := range fn.Blocks {
		for i, ins := range b.Instrs {
			call, ok := ins.(*ssa.Call)
			if !ok {
				continue
			}
			if sc := call.Call.StaticCallee(); sc != nil && funcFullName(sc) == "sync.(*Once).Do" {
				if b == v.Block() && i < instrIndex(v) {
					return true
				}
				if b != v.Block() && b.Dominates(v.Block()) {
					return true
				}
			}
		}
	}
	return false
}

func init() {
	register(&Rule{
		Name:  "DICT-SEALED",
		Floor: 3,
		Doc:   "a Dictionary is written only while it is being constructed: every store to a Dictionary field has a freshly allocated Dictionary as its base. A Dictionary is handed to callers who may hold several iterators and postings lists of it at once (and use it from several goroutines); state kept in it after construction is shared between all of them",
		Run: func(c *Ctx, scope string, r *Report) {
			p := c.ownershipProv()
			dict := c.NamedType("Dictionary")
			for _, fn := range c.srcFns {
				for _, w := range c.writeSitesIn(fn) {
					if w.base == nil {
						continue
					}
					n := namedOf(w.base.Type())
					if n == nil || n.Obj() != dict.Obj() {
						continue
					}
					key := fnName(fn) + "/" + w.desc
					labels := p.Classify(w.base)
					if len(labels) == 1 && labels.has("Fresh") {
						r.ok(key, fnName(fn), c.pos(w.ins.Pos()), "store into a Dictionary under construction")
					} else {
						r.bad(key, fnName(fn), c.pos(w.ins.Pos()), "store to "+w.desc+" of a Dictionary that already exists ("+strings.Join(labels.names(), ", ")+"): every iterator and postings list obtained from this Dictionary shares that state")
					}
				}
			}
		},
	})
}

func init() {
	register(&Rule{
		Name:  "SCRATCH-OWNED",
		Floor: 3,
		Doc:   "a decompression (or compression) result is kept only by the owner of the destination buffer it was written into: if the result of ZSTDDecompress/ZSTDCompress(dst, …) is stored into a field, dst derives from that same field of the same object, and the result is not stored into a field of any other object — two readers never cache data in one shared buffer that either of them overwrites",
		Run: func(c *Ctx, scope string, r *Report) {
			fieldOf := func(v ssa.Value, depth int) string {
				// the (object.field) a slice value was loaded from, through re-slicing
				for d := 0; d < 6; d++ {
					switch x := v.(type) {
					case *ssa.Slice:
						v = x.X
						continue
					case *ssa.UnOp:
						if x.Op == token.MUL {
							if fa, ok := x.X.(*ssa.FieldAddr); ok {
								return accessPath(fa)
							}
						}
					}
					break
				}
				return ""
			}
			for _, callee := range []string{"ZSTDDecompress", "ZSTDCompress"} {
				for _, fn := range c.fnsCalling(callee) {
					for _, call := range callsOf(fn, callee) {
						key := fnName(fn) + "/" + callee + "-dst"
						res := tupleParts(call)[0]
						dstField := fieldOf(call.Call.Args[0], 0)
						stored := map[string]bool{}
						if res != nil {
							var walk func(v ssa.Value, d int)
							seen := map[ssa.Value]bool{}
							walk = func(v ssa.Value, d int) {
								if seen[v] || d > 4 || v.Referrers() == nil {
									return
								}
								seen[v] = true
								for _, ref := range *v.Referrers() {
									switch x := ref.(type) {
									case *ssa.Store:
										if fa, ok := x.Addr.(*ssa.FieldAddr); ok && x.Val == v {
											stored[accessPath(fa)] = true
										}
									case *ssa.Phi:
										walk(x, d+1)
									case *ssa.Slice:
										walk(x, d+1)
									}
								}
							}
							walk(res, 0)
						}
						var others []string
						for f := range stored {
							if f != dstField {
								others = append(others, f)
							}
						}
						sort.Strings(others)
						switch {
						case len(others) == 0:
							r.ok(key, fnName(fn), c.pos(call.Pos()), "the result stays with the owner of its destination buffer ("+dstField+")")
						case dstField == "":
							// destination is a local / parameter buffer and the result is cached in one field: a hand-over, fine when single
							if len(others) == 1 {
								r.ok(key, fnName(fn), c.pos(call.Pos()), "result of a local destination buffer kept in "+others[0])
							} else {
								r.bad(key, fnName(fn), c.pos(call.Pos()), "one "+callee+" result is kept in several places ("+strings.Join(others, ", ")+"): they share one backing array")
							}
						default:
							r.bad(key, fnName(fn), c.pos(call.Pos()), "the result of "+callee+" into "+dstField+" is also kept in "+strings.Join(others, ", ")+": another owner caches data in a buffer that "+dstField+"'s owner overwrites on its next use")
						}
					}
				}
			}
		},
	})
}
