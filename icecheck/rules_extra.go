package main

// Rules added after the second round of independently seeded defects.

import (
	"fmt"
	"go/token"
	"go/types"
	"strings"

	"golang.org/x/tools/go/ssa"
)

func init() {
	register(&Rule{
		Name:  "REMAP-TABLE-READONLY",
		Floor: 10,
		Doc:   "once mergeStoredAndRemap has produced the per-segment document-number tables, nothing in the merger writes into them or into the slice that holds them: no element store, and no append whose destination is (a re-slice of) that slice — the tables published by DocumentNumbers() are exactly the ones the remap phase computed",
		Run: func(c *Ctx, scope string, r *Report) {
			p := c.ownershipProv()
			producer := c.MustFn("mergeStoredAndRemap")
			old := p.h.call
			p.h.call = func(call *ssa.Call, idx int) (labelSet, bool) {
				if call.Call.StaticCallee() == producer && (idx == 1 || idx == -1) {
					return lbl("RemapTable", "document-number tables returned by mergeStoredAndRemap at "+c.pos(call.Pos())), true
				}
				return old(call, idx)
			}
			es := c.entries()
			n := 0
			for fn := range es.MERGE {
				top := fnName(topFn(fn))
				if top == "mergeStoredAndRemap" || top == "mergeStoredAndRemapSegment" || top == "(*Segment).copyStoredDocs" {
					continue // the producer phase fills the tables
				}
				for _, w := range c.writeSitesIn(fn) {
					if w.cont == nil {
						continue
					}
					t := w.cont.Type().String()
					if t != "[][]uint64" && t != "[]uint64" {
						continue
					}
					n++
					key := fnName(fn) + "/" + w.desc
					labels := p.ClassifyAt(w.cont, w.ins.Block())
					if labels.has("RemapTable") {
						r.bad(key, fnName(fn), c.pos(w.ins.Pos()), "write into the document-number tables after the remap phase", labels["RemapTable"])
					} else {
						r.ok(key, fnName(fn), c.pos(w.ins.Pos()), "not the remap tables "+labels.String())
					}
				}
				for _, b := range fn.Blocks {
					for _, ins := range b.Instrs {
						call, ok := ins.(*ssa.Call)
						if !ok {
							continue
						}
						bi, ok := call.Call.Value.(*ssa.Builtin)
						if !ok || bi.Name() != "append" {
							continue
						}
						t := call.Call.Args[0].Type().String()
						if t != "[][]uint64" && t != "[]uint64" {
							continue
						}
						n++
						key := fnName(fn) + "/append-" + t
						labels := p.ClassifyAt(call.Call.Args[0], b)
						if labels.has("RemapTable") {
							r.bad(key, fnName(fn), c.pos(ins.Pos()), "append onto (a re-slice of) the slice holding the remap tables overwrites the finished tables in place", labels["RemapTable"])
						} else {
							r.ok(key, fnName(fn), c.pos(ins.Pos()), "append destination is not the remap-table slice "+labels.String())
						}
					}
				}
			}
			if n == 0 {
				r.undecided("no-sites", "", "-", "no uint64-table writes found in the merger")
			}
		},
	})

	register(&Rule{
		Name:  "PER-FIELD-COMPLETE",
		Floor: 4,
		Doc:   "for every field the merger and the builder record the dictionary offset and both doc-value offsets on every successful path: each successful return of persistMergedRestField is dominated by writeMergedDict and buildMergedDocVals, each successful return of buildMergedDocVals / writeDictsField by stores to both doc-value offset slots (and writeDictsField's dictionary slot)",
		Run: func(c *Ctx, scope string, r *Report) {
			pm := c.MustFn("persistMergedRestField")
			// the unit is one iteration of the per-field loop of the caller: however the phases of a
			// field are distributed over persistMergedRestField and that loop, every iteration that
			// goes on to the next field has run both
			var runsBlocks func(fn *ssa.Function, callee string, depth int) map[*ssa.BasicBlock]bool
			alwaysRuns := func(fn *ssa.Function, callee string, depth int) bool {
				via := runsBlocks(fn, callee, depth)
				if len(via) == 0 {
					return false
				}
				for _, rb := range successReturns(fn) {
					dom := false
					for b := range via {
						if b == rb || b.Dominates(rb) {
							dom = true
						}
					}
					if !dom {
						return false
					}
				}
				return true
			}
			runsBlocks = func(fn *ssa.Function, callee string, depth int) map[*ssa.BasicBlock]bool {
				out := map[*ssa.BasicBlock]bool{}
				for _, b := range fn.Blocks {
					for _, ins := range b.Instrs {
						call, ok := ins.(*ssa.Call)
						if !ok {
							continue
						}
						sc := call.Call.StaticCallee()
						if sc == nil || !c.inRoot(sc) {
							continue
						}
						if fnName(sc) == callee || (depth < 3 && sc.Blocks != nil && sc != fn && alwaysRuns(sc, callee, depth+1)) {
							out[b] = true
						}
					}
				}
				return out
			}
			var loopFn *ssa.Function
			var hdr *ssa.BasicBlock
			for _, site := range c.callsTo(pm) {
				for x := site.Block(); x != nil; x = x.Idom() {
					if isLoopHeader(x) {
						loopFn, hdr = site.Parent(), x
						break
					}
				}
			}
			for _, callee := range []string{"writeMergedDict", "buildMergedDocVals"} {
				key := fnName(pm) + "/always-" + callee
				if hdr == nil {
					r.undecided(key, fnName(pm), c.pos(pm.Pos()), "the per-field loop that calls "+fnName(pm)+" was not found")
					continue
				}
				via := runsBlocks(loopFn, callee, 0)
				paths, complete := iterPaths(hdr, hdr.Succs[0], loopBody(hdr), 4000)
				ok := complete && len(via) > 0
				for _, p := range paths {
					if p.exit {
						continue
					}
					passes := false
					for _, b := range p.blocks {
						if via[b] {
							passes = true
						}
					}
					if !passes {
						ok = false
					}
				}
				if ok {
					r.ok(key, fnName(pm), c.pos(pm.Pos()), "every iteration of the per-field loop that goes on to the next field ran "+callee)
				} else {
					r.bad(key, fnName(pm), c.pos(pm.Pos()), "a field can be finished successfully without "+callee+": its offsets in the fields/doc-value index stay 0 and the loader misparses them")
				}
			}
			// blocks that set param[...]: a store, or handing the slice to an
			// in-package helper that itself sets it on each of its successful returns
			var setsAlways func(fn *ssa.Function, param *ssa.Parameter, depth int) bool
			slotStores := func(fn *ssa.Function, param *ssa.Parameter, depth int) map[*ssa.BasicBlock]bool {
				out := map[*ssa.BasicBlock]bool{}
				for _, b := range fn.Blocks {
					for _, ins := range b.Instrs {
						if st, ok := ins.(*ssa.Store); ok {
							if ia, ok := st.Addr.(*ssa.IndexAddr); ok && ia.X == ssa.Value(param) {
								out[b] = true
							}
						}
						if ci, ok := ins.(ssa.CallInstruction); ok && depth < 3 {
							sc := ci.Common().StaticCallee()
							if sc == nil || !c.inRoot(sc) || sc.Blocks == nil {
								continue
							}
							for ai, a := range ci.Common().Args {
								if a == ssa.Value(param) && ai < len(sc.Params) && setsAlways(sc, sc.Params[ai], depth+1) {
									out[b] = true
								}
							}
						}
					}
				}
				return out
			}
			setsAlways = func(fn *ssa.Function, param *ssa.Parameter, depth int) bool {
				via := slotStores(fn, param, depth)
				if len(via) == 0 {
					return false
				}
				for _, rb := range successReturns(fn) {
					if !coveredOnAllPaths(fn, via, rb) {
						return false
					}
				}
				return true
			}
			for _, name := range []string{"buildMergedDocVals", "(*interim).writeDictsField", "writeMergedDict"} {
				fn := c.MustFn(name)
				for _, p := range fn.Params {
					if p.Type().String() != "[]uint64" {
						continue
					}
					key := name + "/sets-" + p.Name()
					ok := setsAlways(fn, p, 0)
					if ok {
						r.ok(key, name, c.pos(fn.Pos()), "every successful return has stored "+p.Name()+"[fieldID]")
					} else {
						r.bad(key, name, c.pos(fn.Pos()), "a successful return leaves "+p.Name()+"[fieldID] unset")
					}
				}
			}
		},
	})

	register(&Rule{
		Name:  "LOOP-BOUND-AGREE",
		Floor: 1,
		Doc:   "in mergeStoredAndRemapSegment every loop that walks the per-field scratch lists (vals) uses the same bound — the merged field count — so the per-document reset covers exactly the slots the re-encoding loop reads",
		Run: func(c *Ctx, scope string, r *Report) {
			fn := c.MustFn("mergeStoredAndRemapSegment")
			var vals *ssa.Parameter
			for _, p := range fn.Params {
				if p.Type().String() == "[][][]byte" {
					vals = p
				}
			}
			key := fnName(fn) + "/vals-loops"
			if vals == nil {
				r.undecided(key, fnName(fn), c.pos(fn.Pos()), "per-field scratch parameter not found")
				return
			}
			isVals := func(v ssa.Value) bool {
				if v == ssa.Value(vals) {
					return true
				}
				ld, ok := v.(*ssa.UnOp)
				if !ok || ld.Op != token.MUL {
					return false
				}
				a, ok := ld.X.(*ssa.Alloc)
				if !ok {
					return false
				}
				for _, st := range c.census().allocStores[a] {
					if st.val == ssa.Value(vals) {
						return true
					}
				}
				return false
			}
			// len(vals) and len(fieldsInv) are the same bound when every caller
			// allocates the scratch lists as make(..., len(fieldsInv))
			fieldsInv := paramOfType(fn, "[]string")
			valsSized := fieldsInv != nil
			nSites := 0
			for _, site := range c.callsTo(fn) {
				nSites++
				mk, ok := argFor(site.Common(), vals).(*ssa.MakeSlice)
				if !ok {
					valsSized = false
					continue
				}
				x, name, ok := lenOrCapOf(mk.Len)
				if !ok || name != "len" || x != argFor(site.Common(), fieldsInv) {
					valsSized = false
				}
			}
			if nSites == 0 {
				valsSized = false
			}
			bounds := map[string]string{}
			// the loops may sit in helpers the scratch lists are handed to
			type scanFn struct {
				f      *ssa.Function
				isVals func(ssa.Value) bool
			}
			scans := []scanFn{{fn, isVals}}
			for _, sc := range staticCallees(fn) {
				if !c.inRoot(sc) || sc.Blocks == nil {
					continue
				}
				if hp := paramOfType(sc, "[][][]byte"); hp != nil {
					hp := hp
					scans = append(scans, scanFn{sc, func(v ssa.Value) bool {
						if v == ssa.Value(hp) {
							return true
						}
						if ld, ok := v.(*ssa.UnOp); ok && ld.Op == token.MUL {
							if a, ok := ld.X.(*ssa.Alloc); ok {
								for _, st := range c.census().allocStores[a] {
									if st.val == ssa.Value(hp) {
										return true
									}
								}
							}
							if fv, ok := ld.X.(*ssa.FreeVar); ok {
								return derivesFrom(c, fv, hp, 0)
							}
						}
						return false
					}})
				}
			}
			for _, sf := range scans {
				for _, h := range sf.f.Blocks {
					if !isLoopHeader(h) {
						continue
					}
					ifi, ok := h.Instrs[len(h.Instrs)-1].(*ssa.If)
					if !ok {
						continue
					}
					bin, ok := ifi.Cond.(*ssa.BinOp)
					if !ok || bin.Op != token.LSS {
						continue
					}
					// does the loop body index vals with the loop variable?
					uses := false
					for b := range loopBody(h) {
						for _, ins := range b.Instrs {
							if ia, ok := ins.(*ssa.IndexAddr); ok && sf.isVals(ia.X) && ia.Index == bin.X {
								uses = true
							}
						}
					}
					if uses {
						sig := exprSig(bin.Y, 0)
						if x, name, ok := lenOrCapOf(bin.Y); ok && name == "len" {
							switch {
							case sf.isVals(x):
								sig = "the length of the scratch lists"
							case sf.f == fn && fieldsInv != nil && x == ssa.Value(fieldsInv) && valsSized:
								sig = "the length of the scratch lists"
							}
						}
						bounds[sig] = c.pos(bin.Pos())
					}
				}
			}
			switch len(bounds) {
			case 0:
				r.undecided(key, fnName(fn), c.pos(fn.Pos()), "no loop over the per-field scratch lists found")
			case 1:
				for b := range bounds {
					r.ok(key, fnName(fn), c.pos(fn.Pos()), "all loops over the per-field scratch lists are bounded by "+b)
				}
			default:
				var d []string
				for b, pos := range bounds {
					d = append(d, b+" at "+pos)
				}
				r.bad(key, fnName(fn), c.pos(fn.Pos()), "loops over the per-field scratch lists use different bounds: values of a previous document survive in the slots the reset does not cover", d...)
			}
		},
	})

	register(&Rule{
		Name:  "PARALLEL-APPEND",
		Floor: 1,
		Doc:   "setupActiveForField builds five parallel slices indexed by the same iterator index: on every path through one iteration of its per-segment loop each of them is appended the same number of times (0 or 1), so they stay aligned whatever subset of the segments has the field",
		Run: func(c *Ctx, scope string, r *Report) {
			fn := c.MustFn("setupActiveForField")
			key := fnName(fn) + "/aligned"
			var hdr *ssa.BasicBlock
			for _, b := range fn.Blocks {
				if isLoopHeader(b) {
					hdr = b
					break
				}
			}
			if hdr == nil {
				r.undecided(key, fnName(fn), c.pos(fn.Pos()), "per-segment loop not found")
				return
			}
			body := loopBody(hdr)
			// appends per result slice type
			typeOf := func(call *ssa.Call) string { return call.Type().String() }
			paths, complete := iterPaths(hdr, hdr.Succs[0], body, 4000)
			if !complete {
				r.undecided(key, fnName(fn), c.pos(fn.Pos()), "too many paths")
				return
			}
			// a helper that does the appending contributes what it appends: its paths must
			// each grow every slice by the same amount
			kinds := map[string]bool{}
			bad := ""
			helperVec := map[*ssa.Function][]map[string]int{}
			appendsOf := func(ins ssa.Instruction) (string, *ssa.Function) {
				call, ok := ins.(*ssa.Call)
				if !ok {
					return "", nil
				}
				if bi, ok := call.Call.Value.(*ssa.Builtin); ok && bi.Name() == "append" {
					return typeOf(call), nil
				}
				if sc := call.Call.StaticCallee(); sc != nil && c.inRoot(sc) && sc.Blocks != nil {
					return "", sc
				}
				return "", nil
			}
			for b := range body {
				for _, ins := range b.Instrs {
					k, h := appendsOf(ins)
					if k != "" {
						kinds[k] = true
					}
					if h == nil || helperVec[h] != nil {
						continue
					}
					all := map[*ssa.BasicBlock]bool{}
					for _, hb := range h.Blocks {
						all[hb] = true
					}
					hp, ok := iterPaths(nil, h.Blocks[0], all, 2000)
					if !ok {
						continue
					}
					var vecs []map[string]int
					seen := map[string]bool{}
					for _, p := range hp {
						cnt := map[string]int{}
						for _, pb := range p.blocks {
							for _, pi := range pb.Instrs {
								if k2, _ := appendsOf(pi); k2 != "" {
									cnt[k2]++
									seen[k2] = true
								}
							}
						}
						vecs = append(vecs, cnt)
					}
					if len(seen) >= 2 { // a helper that grows several slices: part of the parallel structure
						helperVec[h] = vecs
						for _, v := range vecs {
							for k2 := range v {
								kinds[k2] = true
							}
						}
					}
				}
			}
			for h, vecs := range helperVec {
				for _, v := range vecs {
					first := -1
					for k := range kinds {
						if first < 0 {
							first = v[k]
						} else if v[k] != first {
							bad = fmt.Sprintf("on a path through %s the parallel slices grow by different amounts: %v", fnName(h), v)
						}
					}
				}
			}
			np := 0
			for _, p := range paths {
				if p.exit {
					continue
				}
				np++
				cnt := map[string]int{}
				for _, b := range p.blocks {
					for _, ins := range b.Instrs {
						if k, _ := appendsOf(ins); k != "" {
							cnt[k]++
						}
					}
				}
				first := -1
				for k := range kinds {
					if first < 0 {
						first = cnt[k]
					} else if cnt[k] != first {
						bad = fmt.Sprintf("on a path through one segment iteration (blocks %s) the parallel slices grow by different amounts: %v", blockList(p.blocks), cnt)
					}
				}
			}
			if bad != "" {
				r.bad(key, fnName(fn), c.pos(fn.Pos()), bad)
			} else if len(kinds) < 4 || np == 0 {
				r.undecided(key, fnName(fn), c.pos(fn.Pos()), fmt.Sprintf("only %d appended slices / %d paths found", len(kinds), np))
			} else {
				r.ok(key, fnName(fn), c.pos(fn.Pos()), fmt.Sprintf("%d parallel slices, appended together on each of %d paths", len(kinds), np))
			}
		},
	})
}

func init() {
	register(&Rule{
		Name:  "TERM-BOUNDARY",
		Floor: 2,
		Doc:   "in the merger's term loop, whenever the enumerated term differs from the previous one the previous term is finished (finishTerm) and the new one prepared (prepareNewTerm) before its postings are merged — and the very first term of a field (no previous term yet, including an empty first term, for which bytes.Equal(nil, \"\") holds) is prepared too; decided by boolean abstract execution over the atoms {term equals previous, previous is nil}, independent of how the conditions are written",
		Run: func(c *Ctx, scope string, r *Report) {
			fn := c.MustFn("persistMergedRestField")
			merges := callsOf(fn, "mergeTermFreqNormLocs")
			fins := callsOf(fn, "finishTerm")
			preps := callsOf(fn, "prepareNewTerm")
			// by role when the names are gone (a function turned into a method of a state
			// struct): the finisher is what writes the term's postings and inserts it into the
			// dictionary under construction, the preparer what derives the chunk size, the
			// merger what re-encodes the postings
			byRole := func(marker string, also string) []*ssa.Call {
				var out []*ssa.Call
				for _, b := range fn.Blocks {
					for _, ins := range b.Instrs {
						call, ok := ins.(*ssa.Call)
						if !ok {
							continue
						}
						sc := call.Call.StaticCallee()
						if sc == nil || !c.inRoot(sc) || sc.Blocks == nil {
							continue
						}
						if recv := sc.Signature.Recv(); recv != nil && namedOf(recv.Type()) != nil {
							switch namedOf(recv.Type()).Obj().Name() {
							case "interim", "PostingsList", "chunkedIntCoder", "Dictionary":
								continue
							}
						}
						if len(callsOfName(sc, marker)) > 0 && (also == "" || len(callsOfName(sc, also)) > 0) {
							out = append(out, call)
						}
					}
				}
				return out
			}
			if len(fins) == 0 {
				fins = byRole("writePostings", "Insert")
			}
			if len(preps) == 0 {
				preps = byRole("getChunkSize", "")
			}
			if len(merges) == 0 {
				merges = byRole("encodeFreqHasLocs", "")
			}
			if len(merges) != 1 || len(preps) == 0 || len(fins) == 0 {
				r.undecided(fnName(fn)+"/term-loop", fnName(fn), c.pos(fn.Pos()), "term loop calls not found")
				return
			}
			target := merges[0].Block()
			// loop header of the term loop = innermost loop header dominating the merge call
			var hdr *ssa.BasicBlock
			for x := target; x != nil; x = x.Idom() {
				if isLoopHeader(x) {
					hdr = x
					break
				}
			}
			if hdr == nil {
				r.undecided(fnName(fn)+"/term-loop", fnName(fn), c.pos(fn.Pos()), "term loop not found")
				return
			}
			// the remembered previous term: the loop-carried slice, or - when the loop's state
			// lives in a struct - the byte-slice field that the term comparison (bytes.Equal, in
			// the loop or in a predicate method of that struct) reads
			prevFields := map[*types.Var]bool{}
			eqFns := []*ssa.Function{fn}
			for _, h := range staticCallees(fn) {
				if c.inRoot(h) && h.Blocks != nil && len(h.Blocks) <= 4 {
					eqFns = append(eqFns, h)
				}
			}
			for _, f := range eqFns {
				for _, eq := range callsOfFull(f, "bytes.Equal") {
					for _, a := range eq.Call.Args {
						if ld, ok := a.(*ssa.UnOp); ok && ld.Op == token.MUL {
							if fa, ok := ld.X.(*ssa.FieldAddr); ok {
								if _, fv := fieldAddrInfo(fa); fv != nil {
									prevFields[fv] = true
								}
							}
						}
					}
				}
			}
			isPrev := func(v ssa.Value) bool {
				if _, ok := v.(*ssa.Phi); ok && strings.Contains(exprSig(v, 0), "prevTerm") {
					return true
				}
				if ld, ok := v.(*ssa.UnOp); ok && ld.Op == token.MUL {
					if fa, ok := ld.X.(*ssa.FieldAddr); ok {
						if _, fv := fieldAddrInfo(fa); fv != nil && prevFields[fv] {
							return true
						}
					}
				}
				return false
			}
			atoms := func(v ssa.Value) (int, bool, bool) {
				if call, ok := v.(*ssa.Call); ok {
					if sc := call.Call.StaticCallee(); sc != nil && funcFullName(sc) == "bytes.Equal" {
						return 0, false, true
					}
				}
				if neg, ok := cmpNilAtom(v, isPrev); ok {
					return 1, neg, true
				}
				// len(prevTerm) == 0 counts as "no previous term" as well
				if neg, ok := cmpZeroAtom(v, func(x ssa.Value) bool {
					y, name, ok := lenOrCapOf(x)
					return ok && name == "len" && isPrev(y)
				}); ok {
					return 1, neg, true
				}
				return 0, false, false
			}
			be := &boolExec{fn: fn, atoms: atoms, n: 2, inline: true}
			blocksOf := func(calls []*ssa.Call) map[*ssa.BasicBlock]bool {
				m := map[*ssa.BasicBlock]bool{}
				for _, cl := range calls {
					if loopBody(hdr)[cl.Block()] {
						m[cl.Block()] = true
					}
				}
				return m
			}
			start := hdr.Succs[0]
			check := func(key, what string, via map[*ssa.BasicBlock]bool, asgs []uint, when string) {
				if len(via) == 0 {
					r.bad(key, fnName(fn), c.pos(merges[0].Pos()), what+" is not called inside the term loop")
					return
				}
				for _, asg := range asgs {
					if be.pathAvoiding(start, target, via, asg) {
						r.bad(key, fnName(fn), c.pos(merges[0].Pos()), "the postings of a term can be merged without "+what+" "+when+" ("+describeAsg([]string{"term == previous", "previous == nil"}, asg)+")")
						return
					}
				}
				r.ok(key, fnName(fn), c.pos(merges[0].Pos()), what+" always runs "+when)
			}
			// E = bit0 (equal), N = bit1 (prev nil)
			check(fnName(fn)+"/finish-on-change", "finishTerm", blocksOf(fins), []uint{0, 2}, "when the term differs from the previous one")
			check(fnName(fn)+"/prepare-on-change", "prepareNewTerm", blocksOf(preps), []uint{0, 2}, "when the term differs from the previous one")
			check(fnName(fn)+"/prepare-first", "prepareNewTerm", blocksOf(preps), []uint{2, 3}, "for the first term of a field")
			// and the reverse: while the term is the same as the previous one - the same term coming
			// from the next segment, including the empty term, after which the remembered term is
			// still nil - the term in progress is not finished (its postings so far would be written
			// and the dictionary entry overwritten by the rest)
			{
				key := fnName(fn) + "/no-finish-within-term"
				bad := ""
				for _, asg := range []uint{1, 3} {
					for fb := range blocksOf(fins) {
						if (fb == start || be.pathAvoiding(start, fb, map[*ssa.BasicBlock]bool{}, asg)) && (fb == target || be.pathAvoiding(fb, target, map[*ssa.BasicBlock]bool{}, asg)) {
							bad = "finishTerm can run although the term is the same as the previous one (" + describeAsg([]string{"term == previous", "previous == nil"}, asg) + "): the postings collected so far for the term are written out and the rest of the term overwrites its dictionary entry"
						}
					}
				}
				if bad != "" {
					r.bad(key, fnName(fn), c.pos(merges[0].Pos()), bad)
				} else {
					r.ok(key, fnName(fn), c.pos(merges[0].Pos()), "finishTerm never runs between the postings of one term")
				}
			}
			// after the loop: the last term is finished on the successful path
			okLast := false
			for _, f := range fins {
				if !loopBody(hdr)[f.Block()] {
					okLast = true
					for _, rb := range successReturns(fn) {
						if !(f.Block() == rb || f.Block().Dominates(rb)) {
							okLast = false
						}
					}
				}
			}
			if okLast {
				r.ok(fnName(fn)+"/finish-last", fnName(fn), c.pos(fn.Pos()), "the last term is finished after the loop on every successful path")
			} else {
				r.bad(fnName(fn)+"/finish-last", fnName(fn), c.pos(fn.Pos()), "the last term of a field is not finished on every successful path")
			}
		},
	})
}

func init() {
	register(&Rule{
		Name:  "ENUM-SKIP-GUARD",
		Floor: 1,
		Doc:   "the k-way enumerator skips a per-segment iterator only when it is exhausted (nil key AND zero value) or positioned on an empty key while empty keys are being skipped; in every other case the iterator's current key takes part in the comparison — a live entry (including the empty term, whose key is nil but whose value is not 0) is never dropped from a merged dictionary. Decided by boolean abstract execution over {key==nil, value==0, len(key)==0, skipEmptyKey}",
		Run: func(c *Ctx, scope string, r *Report) {
			fn := c.MustFn("(*enumerator).updateMatches")
			key := fnName(fn) + "/skip"
			var hdr, cmpBlk *ssa.BasicBlock
			for _, b := range fn.Blocks {
				for _, ins := range b.Instrs {
					if call, ok := ins.(*ssa.Call); ok {
						if sc := call.Call.StaticCallee(); sc != nil && funcFullName(sc) == "bytes.Compare" {
							cmpBlk = b
						}
					}
				}
			}
			if cmpBlk == nil {
				r.undecided(key, fnName(fn), c.pos(fn.Pos()), "bytes.Compare of the current key not found")
				return
			}
			for x := cmpBlk; x != nil; x = x.Idom() {
				if isLoopHeader(x) {
					hdr = x
					break
				}
			}
			if hdr == nil {
				r.undecided(key, fnName(fn), c.pos(fn.Pos()), "loop over the iterators not found")
				return
			}
			// the current key / value of an iterator, by role rather than by name: a []byte
			// (resp. uint64) loaded from memory — an element of the parallel slices or a
			// field of a per-iterator cursor struct — not the low key kept by the enumerator
			isKey := func(v ssa.Value) bool {
				// (inside a predicate helper the key arrives as its []byte parameter)
				if p, ok := v.(*ssa.Parameter); ok && p.Parent() != fn && isByteSlice(p.Type()) {
					return true
				}
				ld, ok := v.(*ssa.UnOp)
				if !ok || ld.Op != token.MUL || !isByteSlice(v.Type()) {
					return false
				}
				return !strings.HasSuffix(accessPath(ld.X), ".lowK")
			}
			isVal := func(v ssa.Value) bool {
				ld, ok := v.(*ssa.UnOp)
				return ok && ld.Op == token.MUL && v.Type().String() == "uint64"
			}
			var skipParam *ssa.Parameter
			for _, p := range fn.Params {
				if p.Type().String() == "bool" {
					skipParam = p
				}
			}
			atoms := func(v ssa.Value) (int, bool, bool) {
				if neg, ok := cmpNilAtom(v, isKey); ok {
					return 0, neg, true
				}
				if neg, ok := cmpZeroAtom(v, isVal); ok {
					return 1, neg, true
				}
				if neg, ok := cmpZeroAtom(v, func(x ssa.Value) bool {
					y, name, ok := lenOrCapOf(x)
					return ok && name == "len" && isKey(y)
				}); ok {
					return 2, neg, true
				}
				if skipParam != nil && v == ssa.Value(skipParam) {
					return 3, false, true
				}
				return 0, false, false
			}
			be := &boolExec{fn: fn, atoms: atoms, n: 4, inline: true}
			start := hdr.Succs[0]
			for asg := uint(0); asg < 16; asg++ {
				K, V, L, S := asg&1 != 0, asg&2 != 0, asg&4 != 0, asg&8 != 0
				if K && !L {
					continue // a nil key has length 0: infeasible
				}
				maySkip := (K && V) || (L && S)
				if maySkip {
					continue
				}
				if be.pathAvoiding(start, hdr, map[*ssa.BasicBlock]bool{cmpBlk: true}, asg) {
					r.bad(key, fnName(fn), c.pos(cmpBlk.Instrs[0].Pos()), "a live iterator position can be skipped without being compared when "+describeAsg([]string{"key==nil", "value==0", "len(key)==0", "skipEmptyKey"}, asg)+": its terms would silently vanish from the merged dictionary")
					return
				}
			}
			r.ok(key, fnName(fn), c.pos(cmpBlk.Instrs[0].Pos()), "an iterator is skipped only when exhausted (nil key and zero value) or on an empty key while those are skipped")
		},
	})
}

var _ = strings.Contains

// takesBitmapContainsEdge: the path goes along the true edge of an If whose
// condition is (or ends in) a roaring Bitmap.Contains call.
func takesBitmapContainsEdge(blocks []*ssa.BasicBlock) bool {
	for i := 0; i+1 < len(blocks); i++ {
		b := blocks[i]
		ifi, ok := b.Instrs[len(b.Instrs)-1].(*ssa.If)
		if !ok || b.Succs[0] != blocks[i+1] {
			continue
		}
		if call, ok := ifi.Cond.(*ssa.Call); ok && call.Call.StaticCallee() != nil && call.Call.StaticCallee().Name() == "Contains" && strings.Contains(funcFullName(call.Call.StaticCallee()), "roaring") {
			return true
		}
	}
	return false
}

// scratchSummary: what fn does to field F of its parameter pi — "reset" (a
// fresh value: [:0], nil or make, on every path), "accumulate" (only values
// grown from the field's own previous value), "none" or "unknown".
func scratchSummary(c *Ctx, fn *ssa.Function, pi int, field string, depth int) string {
	if fn.Blocks == nil || depth > 2 || pi >= len(fn.Params) {
		return "unknown"
	}
	p := fn.Params[pi]
	var classify func(v ssa.Value, d int) string
	classify = func(v ssa.Value, d int) string {
		if d > 12 {
			return "unknown"
		}
		switch x := v.(type) {
		case *ssa.Slice:
			if k, ok := constInt(x.High); ok && k == 0 && x.High != nil {
				return "fresh"
			}
			return classify(x.X, d+1)
		case *ssa.MakeSlice:
			return "fresh"
		case *ssa.Const:
			return "fresh"
		case *ssa.Extract:
			return classify(x.Tuple, d+1)
		case *ssa.Phi:
			worst := "fresh"
			for _, e := range x.Edges {
				if e == ssa.Value(x) {
					continue
				}
				switch classify(e, d+1) {
				case "unknown":
					return "unknown"
				case "acc":
					worst = "acc"
				}
			}
			return worst
		case *ssa.Call:
			if bi, ok := x.Call.Value.(*ssa.Builtin); ok && bi.Name() == "append" {
				return classify(x.Call.Args[0], d+1)
			}
			worst, n := "fresh", 0
			for _, a := range x.Call.Args {
				if isByteSlice(a.Type()) {
					n++
					switch classify(a, d+1) {
					case "unknown":
						return "unknown"
					case "acc":
						worst = "acc"
					}
				}
			}
			if n == 0 {
				return "unknown"
			}
			return worst
		case *ssa.UnOp:
			if x.Op == token.MUL {
				if fa, ok := x.X.(*ssa.FieldAddr); ok && fa.X == ssa.Value(p) {
					if _, f := fieldAddrInfo(fa); f != nil && f.Name() == field {
						return "acc"
					}
				}
			}
		}
		return "unknown"
	}
	via := map[*ssa.BasicBlock]bool{}
	nStores, anyAcc := 0, false
	for _, b := range fn.Blocks {
		for _, ins := range b.Instrs {
			switch x := ins.(type) {
			case *ssa.Store:
				fa, ok := x.Addr.(*ssa.FieldAddr)
				if !ok || fa.X != ssa.Value(p) {
					// whole-struct store through the parameter: *p = T{}
					if x.Addr == ssa.Value(p) {
						nStores++
						via[b] = true
					}
					continue
				}
				if _, f := fieldAddrInfo(fa); f == nil || f.Name() != field {
					continue
				}
				nStores++
				switch classify(x.Val, 0) {
				case "fresh":
					via[b] = true
				case "acc":
					anyAcc = true
				default:
					return "unknown"
				}
			case ssa.CallInstruction:
				sc := x.Common().StaticCallee()
				if sc == nil || !c.inRoot(sc) || sc == fn {
					continue
				}
				for ai, a := range x.Common().Args {
					if a == ssa.Value(p) {
						switch scratchSummary(c, sc, ai, field, depth+1) {
						case "reset":
							nStores++
							via[b] = true
						case "accumulate":
							nStores++
							anyAcc = true
						case "unknown":
							return "unknown"
						}
					}
				}
			}
		}
	}
	if nStores == 0 {
		return "none"
	}
	if len(via) > 0 && !anyAcc {
		all := true
		for _, b := range fn.Blocks {
			if _, ok := b.Instrs[len(b.Instrs)-1].(*ssa.Return); ok && !coveredOnAllPaths(fn, via, b) {
				all = false
			}
		}
		if all {
			return "reset"
		}
	}
	return "accumulate"
}

func init() {
	register(&Rule{
		Name:  "ITER-SCRATCH",
		Floor: 2,
		Doc:   "where a stored-field record is accumulated in scratch that outlives the document loop (a bytes.Buffer, a byte slice variable, or byte-slice fields of an encoder object) and then handed to chunkedDocumentCoder.Add, on every path through one iteration that reaches the Add the scratch was restarted in that same iteration (Reset() of the buffer, [:0] / a fresh slice, or a reset method of the encoder object): a document that stores nothing can never be written with the previous document's record. A record that is a window of data produced outside the loop is not scratch",
		Run: func(c *Ctx, scope string, r *Report) {
			for _, fn := range c.fnsCalling("(*chunkedDocumentCoder).Add") {
				for _, add := range callsOf(fn, "(*chunkedDocumentCoder).Add") {
					meta := argNamed(&add.Call, "metaBytes")
					data := argNamed(&add.Call, "data")
					if meta == nil || data == nil {
						meta, data = add.Call.Args[2], add.Call.Args[3]
					}
					// the innermost loop around the Add
					var hdr *ssa.BasicBlock
					for b := add.Block(); b != nil; b = b.Idom() {
						if isLoopHeader(b) && loopBody(b)[add.Block()] {
							hdr = b
							break
						}
					}
					key := fnName(fn) + "/record-scratch"
					if hdr == nil {
						continue // a single record written outside any loop
					}
					body := loopBody(hdr)
					paths, complete := iterPaths(hdr, hdr.Succs[0], body, 4000)
					if !complete {
						r.undecided(key, fnName(fn), c.pos(add.Pos()), "too many paths through the document loop")
						continue
					}
					bad, und := "", ""
					skipped := ""
					np := 0
					for _, p := range paths {
						idx := -1
						for i, b := range p.blocks {
							if b == add.Block() {
								idx = i
							}
						}
						if idx < 0 {
							// an iteration that adds no record: only a dropped document (the true edge of
							// a Contains test on a deletion bitmap) or an error exit may do that — the
							// block coder numbers records by counting Add calls
							if !p.exit && !takesBitmapContainsEdge(p.blocks) && skipped == "" {
								skipped = blockList(p.blocks)
							}
							continue
						}
						np++
						pre := p.blocks[:idx+1]
						inPath := map[*ssa.BasicBlock]bool{}
						for _, b := range pre {
							inPath[b] = true
						}
						// scanBack visits the instructions of the path prefix that precede `from`, latest first
						scanBack := func(from ssa.Instruction, visit func(ins ssa.Instruction) (string, bool)) string {
							bi := -1
							for i, b := range pre {
								if b == from.Block() {
									bi = i
								}
							}
							if bi < 0 {
								return "unknown"
							}
							for i := bi; i >= 0; i-- {
								b := pre[i]
								start := len(b.Instrs) - 1
								if i == bi {
									start = instrIndex(from) - 1
								}
								for j := start; j >= 0; j-- {
									if res, done := visit(b.Instrs[j]); done {
										return res
									}
								}
							}
							return "carried"
						}
						var origin func(v ssa.Value, d int) string
						origin = func(v ssa.Value, d int) string {
							if d > 24 {
								return "unknown"
							}
							v = resolveOnPath(v, hdr, pre)
							if ins, ok := v.(ssa.Instruction); ok {
								if _, isPhi := v.(*ssa.Phi); !body[ins.Block()] && !(isPhi && ins.Block() == hdr) {
									return "fresh" // produced outside this loop: not accumulated by it
								}
							}
							switch x := v.(type) {
							case *ssa.Parameter, *ssa.FreeVar, *ssa.Global:
								return "fresh"
							case *ssa.Phi:
								if x.Block() == hdr {
									return "carried"
								}
								worst := "fresh"
								for _, e := range x.Edges {
									if e == ssa.Value(x) {
										continue
									}
									if o := origin(e, d+1); o != "fresh" {
										worst = o
									}
								}
								return worst
							case *ssa.Slice:
								if k, ok := constInt(x.High); ok && k == 0 && x.High != nil && inPath[x.Block()] {
									return "fresh"
								}
								return origin(x.X, d+1)
							case *ssa.MakeSlice, *ssa.Const:
								return "fresh"
							case *ssa.Extract:
								return origin(x.Tuple, d+1)
							case *ssa.Call:
								if bi, ok := x.Call.Value.(*ssa.Builtin); ok && bi.Name() == "append" {
									return origin(x.Call.Args[0], d+1)
								}
								bufPath := ""
								if sc := x.Call.StaticCallee(); sc != nil && funcFullName(sc) == "bytes.(*Buffer).Bytes" {
									bufPath = accessPath(x.Call.Args[0])
								} else if sc != nil && c.inRoot(sc) && sc.Blocks != nil && sc.Signature.Recv() != nil && len(x.Call.Args) == 1 {
									// an accessor of a small encoder object: `func (e *enc) bytes() []byte { return e.buf.Bytes() }`
									suffix, all := "", true
									for _, hb := range sc.Blocks {
										ret, isRet := hb.Instrs[len(hb.Instrs)-1].(*ssa.Return)
										if !isRet {
											continue
										}
										bc, isCall := ret.Results[0].(*ssa.Call)
										if !isCall || bc.Call.StaticCallee() == nil || funcFullName(bc.Call.StaticCallee()) != "bytes.(*Buffer).Bytes" {
											all = false
											continue
										}
										ip := accessPath(bc.Call.Args[0])
										pn := sc.Params[0].Name()
										if !strings.HasPrefix(ip, pn+".") && !strings.HasPrefix(ip, "&"+pn+".") {
											all = false
											continue
										}
										suffix = ip[strings.Index(ip, pn)+len(pn):]
									}
									if all && suffix != "" {
										bufPath = accessPath(x.Call.Args[0]) + suffix
									}
								}
								if bufPath != "" {
									return scanBack(x, func(ins ssa.Instruction) (string, bool) {
										if ci, ok := ins.(ssa.CallInstruction); ok {
											if s2 := ci.Common().StaticCallee(); s2 != nil && funcFullName(s2) == "bytes.(*Buffer).Reset" && accessPath(ci.Common().Args[0]) == bufPath {
												return "fresh", true
											}
											// or a helper of the buffer's owner that resets it whenever it returns
											if s2 := ci.Common().StaticCallee(); s2 != nil && c.inRoot(s2) && s2.Blocks != nil {
												for ai, arg := range ci.Common().Args {
													if owner := accessPath(arg); ai < len(s2.Params) && strings.HasPrefix(bufPath, owner+".") && mustResetBuffer(s2, s2.Params[ai].Name()+strings.TrimPrefix(bufPath, owner)) {
														return "fresh", true
													}
												}
											}
										}
										return "", false
									})
								}
								// a helper that restarts the slice it is handed ([:0]) before it
								// appends to it and returns it
								if sc := x.Call.StaticCallee(); sc != nil && c.inRoot(sc) && sc.Blocks != nil && returnsRestarted(c, sc) {
									return "fresh"
								}
								worst, n := "fresh", 0
								for _, a := range x.Call.Args {
									if isByteSlice(a.Type()) {
										n++
										if o := origin(a, d+1); o != "fresh" {
											worst = o
										}
									}
								}
								if n == 0 {
									return "unknown"
								}
								return worst
							case *ssa.UnOp:
								if x.Op != token.MUL {
									return "unknown"
								}
								switch a := x.X.(type) {
								case *ssa.Alloc:
									// a local cell (a variable captured by a closure lives in one)
									return scanBack(x, func(ins ssa.Instruction) (string, bool) {
										if st, ok := ins.(*ssa.Store); ok && st.Addr == ssa.Value(a) {
											return origin(st.Val, d+1), true
										}
										return "", false
									})
								case *ssa.FieldAddr:
									// a byte-slice field of an encoder object: last store on the path,
									// through the object's helper methods
									_, f := fieldAddrInfo(a)
									if f == nil {
										return "unknown"
									}
									objPath := accessPath(a.X)
									return scanBack(x, func(ins ssa.Instruction) (string, bool) {
										switch y := ins.(type) {
										case *ssa.Store:
											if fa, ok := y.Addr.(*ssa.FieldAddr); ok && accessPath(fa) == accessPath(a) {
												return origin(y.Val, d+1), true
											}
										case ssa.CallInstruction:
											sc := y.Common().StaticCallee()
											if sc == nil || !c.inRoot(sc) {
												return "", false
											}
											for ai, arg := range y.Common().Args {
												if accessPath(arg) == objPath {
													switch scratchSummary(c, sc, ai, f.Name(), 0) {
													case "reset":
														return "fresh", true
													case "unknown":
														return "unknown", true
													}
												}
											}
										}
										return "", false
									})
								}
							}
							return "unknown"
						}
						for _, arg := range []struct {
							v    ssa.Value
							what string
						}{{meta, "meta"}, {data, "data"}} {
							switch origin(arg.v, 0) {
							case "carried":
								bad = "the " + arg.what + " part handed to Add is carried over from the previous iteration on the path " + blockList(pre) + " without being restarted: the previous document's record is written again"
							case "unknown":
								und = "cannot tell where the " + arg.what + " part handed to Add comes from on the path " + blockList(pre)
							}
						}
						if bad != "" {
							break
						}
					}
					if skipped != "" {
						r.bad(fnName(fn)+"/record-per-document", fnName(fn), c.pos(add.Pos()), "an iteration of the document loop (path "+skipped+") continues without adding a record and without the document being dropped: the block coder counts records, so every later document of the block is found under the wrong number")
					} else {
						r.ok(fnName(fn)+"/record-per-document", fnName(fn), c.pos(add.Pos()), "every iteration adds exactly one record unless the document is dropped")
					}
					switch {
					case bad != "":
						r.bad(key, fnName(fn), c.pos(add.Pos()), bad)
					case und != "":
						r.undecided(key, fnName(fn), c.pos(add.Pos()), und)
					case np == 0:
						r.undecided(key, fnName(fn), c.pos(add.Pos()), "no path through the loop reaches the Add")
					default:
						r.ok(key, fnName(fn), c.pos(add.Pos()), fmt.Sprintf("%d paths to the Add: both parts of the record are restarted in the same iteration (or are windows of data produced outside the loop)", np))
					}
				}
			}
		},
	})
}

func init() {
	register(&Rule{
		Name:   "EMPTY-SAFE",
		Floor:  0,
		ZeroOK: true,
		Doc:    "a slice allocated in a function with a length that is not a constant (a document count, a field count: quantities that are 0 for empty segments and batches) is not indexed with a constant unless a dominating test establishes that it is long enough, or its length is by construction at least that constant plus one: zero-document segments and empty batches are valid inputs",
		Run: func(c *Ctx, scope string, r *Report) {
			for _, fn := range c.srcFns {
				for _, b := range fn.Blocks {
					for _, ins := range b.Instrs {
						// x[:len(x)-k] of a table kept in a Segment (tables of a loaded segment are empty
						// when the section they come from is absent: zero documents)
						if sl, isSl := ins.(*ssa.Slice); isSl && sl.High != nil {
							if hb, ok := stripConv(sl.High).(*ssa.BinOp); ok && hb.Op == token.SUB {
								x, name, okLen := lenOrCapOf(hb.X)
								k, okK := constInt(hb.Y)
								if okLen && name == "len" && okK && k >= 1 && x == sl.X && strings.Contains(accessPath(sl.X), ".") && segmentHeld(sl.X) {
									key := fnName(fn) + "/len-minus-" + stableName(sl.X)
									guarded := false
									for d := b; d != nil && !guarded; d = d.Idom() {
										idom := d.Idom()
										if idom == nil {
											break
										}
										ifi, ok := idom.Instrs[len(idom.Instrs)-1].(*ssa.If)
										if !ok || len(d.Preds) != 1 {
											continue
										}
										if bin, ok := ifi.Cond.(*ssa.BinOp); ok {
											for _, side := range []ssa.Value{bin.X, bin.Y} {
												if y, nm, ok := lenOrCapOf(side); ok && nm == "len" && accessPath(y) == accessPath(sl.X) {
													guarded = true
												}
												if strings.HasSuffix(exprSig(stripConv(side), 0), ".numDocs") {
													guarded = true
												}
											}
										}
									}
									if guarded {
										r.ok(key, fnName(fn), c.pos(sl.Pos()), "a dominating test of the table's length (or of the document count, without which the table is not loaded) guards len-"+fmt.Sprint(k))
									} else {
										r.bad(key, fnName(fn), c.pos(sl.Pos()), fmt.Sprintf("%s[:len-%d] without a test that the table is not empty: a segment loaded from a file with zero documents has no such table and this slices out of range", exprSig(sl.X, 0), k))
									}
								}
							}
							continue
						}
						ia, ok := ins.(*ssa.IndexAddr)
						if !ok {
							continue
						}
						k, isK := constInt(ia.Index)
						if !isK || k < 0 {
							continue
						}
						mk, ok := ia.X.(*ssa.MakeSlice)
						if !ok {
							continue
						}
						if _, constLen := constInt(mk.Len); constLen {
							continue
						}
						// only stores/loads through this address matter (not &x[0] handed on)
						key := fnName(fn) + "/const-index-" + stableName(ia.X)
						if lenAtLeast(mk.Len, k+1) {
							r.ok(key, fnName(fn), c.pos(ia.Pos()), "the length is at least the index + 1 by construction")
							continue
						}
						guarded := false
						for d := b; d != nil && !guarded; d = d.Idom() {
							idom := d.Idom()
							if idom == nil {
								break
							}
							ifi, ok := idom.Instrs[len(idom.Instrs)-1].(*ssa.If)
							if !ok {
								continue
							}
							bin, ok := ifi.Cond.(*ssa.BinOp)
							if !ok {
								continue
							}
							// a comparison that mentions the slice's length or its length operand
							mentions := func(v ssa.Value) bool {
								if v == mk.Len || stripConv(v) == stripConv(mk.Len) {
									return true
								}
								if x, name, ok := lenOrCapOf(v); ok && name == "len" && x == ssa.Value(mk) {
									return true
								}
								return false
							}
							if (mentions(bin.X) || mentions(bin.Y)) && (d == idom.Succs[0] || d == idom.Succs[1]) && len(d.Preds) == 1 {
								guarded = true
							}
						}
						if guarded {
							r.ok(key, fnName(fn), c.pos(ia.Pos()), "a dominating test of the length guards the constant index")
						} else {
							r.bad(key, fnName(fn), c.pos(ia.Pos()), fmt.Sprintf("element %d of a slice made with the variable length %s is accessed without a test that the slice is that long: for an empty input (zero documents / fields) this indexes out of range", k, exprSig(mk.Len, 0)))
						}
					}
				}
			}
		},
	})
}

// lenAtLeast: the length expression is provably >= n (n + something unsigned, or max-like forms).
func lenAtLeast(v ssa.Value, n int64) bool {
	v = stripConv(v)
	if bin, ok := v.(*ssa.BinOp); ok && bin.Op == token.ADD {
		if k, ok := constInt(bin.Y); ok && k >= n {
			return true
		}
		if k, ok := constInt(bin.X); ok && k >= n {
			return true
		}
	}
	return false
}

func init() {
	register(&Rule{
		Name:   "RANGE-INDEX-BASE",
		Floor:  0,
		ZeroOK: true,
		Doc:    "the index variable of a loop over a sub-slice x[a:b] (a not 0) is relative to the sub-slice: it is not used to index x itself (that reads x[i] where x[a+i] is meant — the elements before a are processed again and those of the run are skipped)",
		Run: func(c *Ctx, scope string, r *Report) {
			for _, fn := range c.srcFns {
				for _, h := range fn.Blocks {
					if !isLoopHeader(h) {
						continue
					}
					ifi, ok := h.Instrs[len(h.Instrs)-1].(*ssa.If)
					if !ok {
						continue
					}
					bin, ok := ifi.Cond.(*ssa.BinOp)
					if !ok || bin.Op != token.LSS {
						continue
					}
					x, name, ok := lenOrCapOf(bin.Y)
					if !ok || name != "len" {
						continue
					}
					sub, ok := x.(*ssa.Slice)
					if !ok || sub.Low == nil {
						continue
					}
					if k, isK := constInt(sub.Low); isK && k == 0 {
						continue
					}
					if !inductionFromZero(bin.X, h) {
						continue
					}
					for b := range loopBody(h) {
						for _, ins := range b.Instrs {
							ia, ok := ins.(*ssa.IndexAddr)
							if !ok || ia.Index != bin.X {
								continue
							}
							key := fnName(fn) + "/sub-slice-index"
							if ia.X == sub.X {
								r.bad(key, fnName(fn), c.pos(ia.Pos()), "the index of a loop over "+exprSig(sub, 0)+" is used to index the whole slice "+exprSig(sub.X, 0)+": element i of the sub-slice is element low+i of the slice")
							} else if ia.X == ssa.Value(sub) {
								r.ok(key, fnName(fn), c.pos(ia.Pos()), "the sub-slice is indexed with its own loop index")
							}
						}
					}
				}
			}
		},
	})
}

func init() {
	register(&Rule{
		Name:   "APPEND-RESULT-USED",
		Floor:  0,
		ZeroOK: true,
		Doc:    "an in-package function that grows a slice parameter and returns it (append style: some return value derives from append(param, …)) is never called with that result discarded — the caller's slice header would stay at its old length and the appended elements be lost",
		Run: func(c *Ctx, scope string, r *Report) {
			for _, fn := range c.srcFns {
				if fn.Parent() != nil || fn.Signature.Results().Len() == 0 {
					continue
				}
				// which result indexes derive from append(<param>, …)?
				appendRes := map[int]bool{}
				var fromParam func(v ssa.Value, d int) bool
				fromParam = func(v ssa.Value, d int) bool {
					if d > 8 {
						return false
					}
					switch x := v.(type) {
					case *ssa.Parameter:
						_, isSlice := x.Type().Underlying().(*types.Slice)
						return isSlice
					case *ssa.Slice:
						return fromParam(x.X, d+1)
					case *ssa.Phi:
						for _, e := range x.Edges {
							if e != ssa.Value(x) && fromParam(e, d+1) {
								return true
							}
						}
					case *ssa.Call:
						if bi, ok := x.Call.Value.(*ssa.Builtin); ok && bi.Name() == "append" {
							return fromParam(x.Call.Args[0], d+1)
						}
					}
					return false
				}
				var isAppendOfParam func(v ssa.Value, d int) bool
				isAppendOfParam = func(v ssa.Value, d int) bool {
					if d > 8 {
						return false
					}
					switch x := v.(type) {
					case *ssa.Phi:
						for _, e := range x.Edges {
							if e != ssa.Value(x) && isAppendOfParam(e, d+1) {
								return true
							}
						}
					case *ssa.Call:
						if bi, ok := x.Call.Value.(*ssa.Builtin); ok && bi.Name() == "append" {
							return fromParam(x.Call.Args[0], d+1)
						}
					}
					return false
				}
				// a slice parameter that lives in a cell because a closure of fn appends to it
				cellGrown := func(v ssa.Value) bool {
					ld, ok := v.(*ssa.UnOp)
					if !ok || ld.Op != token.MUL {
						return false
					}
					cell, ok := ld.X.(*ssa.Alloc)
					if !ok {
						return false
					}
					holdsParam := false
					for _, st := range c.census().allocStores[cell] {
						if p, ok := st.val.(*ssa.Parameter); ok {
							if _, isSlice := p.Type().Underlying().(*types.Slice); isSlice {
								holdsParam = true
							}
						}
					}
					if !holdsParam {
						return false
					}
					isCellLoad := func(f *ssa.Function, a ssa.Value) bool {
						l2, ok := a.(*ssa.UnOp)
						if !ok || l2.Op != token.MUL {
							return false
						}
						if l2.X == ssa.Value(cell) {
							return true
						}
						if fv, ok := l2.X.(*ssa.FreeVar); ok {
							for i, x := range f.FreeVars {
								if x != fv {
									continue
								}
								for _, mc := range c.census().closures[f] {
									if i < len(mc.Bindings) && mc.Bindings[i] == ssa.Value(cell) {
										return true
									}
								}
							}
						}
						return false
					}
					fs := append([]*ssa.Function{fn}, fn.AnonFuncs...)
					for _, f := range fs {
						for _, b := range f.Blocks {
							for _, ins := range b.Instrs {
								if call, ok := ins.(*ssa.Call); ok {
									if bi, ok := call.Call.Value.(*ssa.Builtin); ok && bi.Name() == "append" && isCellLoad(f, call.Call.Args[0]) {
										return true
									}
								}
							}
						}
					}
					return false
				}
				for _, b := range fn.Blocks {
					if ret, ok := b.Instrs[len(b.Instrs)-1].(*ssa.Return); ok {
						for i, res := range ret.Results {
							if isAppendOfParam(resolveLoad(res), 0) || cellGrown(res) {
								appendRes[i] = true
							}
						}
					}
				}
				if len(appendRes) == 0 {
					continue
				}
				for _, site := range c.callsTo(fn) {
					call, ok := site.(*ssa.Call)
					if !ok {
						continue // go/defer: result necessarily discarded, not the pattern
					}
					key := fnName(site.Parent()) + "/uses-result-of-" + fnName(fn)
					used := true
					if fn.Signature.Results().Len() == 1 {
						used = call.Referrers() != nil && len(*call.Referrers()) > 0
					} else {
						for i := range appendRes {
							got := false
							if call.Referrers() != nil {
								for _, ref := range *call.Referrers() {
									if ex, ok := ref.(*ssa.Extract); ok && ex.Index == i && ex.Referrers() != nil && len(*ex.Referrers()) > 0 {
										got = true
									}
								}
							}
							if !got {
								used = false
							}
						}
					}
					if used {
						r.ok(key, fnName(site.Parent()), c.pos(site.Pos()), "the grown slice returned by "+fnName(fn)+" is used")
					} else {
						r.bad(key, fnName(site.Parent()), c.pos(site.Pos()), fnName(fn)+" appends to the slice it is given and returns the grown slice, but this call discards the result: the caller's slice keeps its old length and the appended elements are lost")
					}
				}
			}
		},
	})
}

func init() {
	register(&Rule{
		Name:   "STALE-LEN",
		Floor:  0,
		ZeroOK: true,
		Doc:    "inside a loop that grows a byte slice by appending to it, the slice's length measured BEFORE the loop is not used (as an offset that is recorded or indexed with): the start offset of each appended piece is the length after the previous append, so it has to be taken inside the loop",
		Run: func(c *Ctx, scope string, r *Report) {
			for _, fn := range c.srcFns {
				for _, h := range fn.Blocks {
					if !isLoopHeader(h) {
						continue
					}
					body := loopBody(h)
					// locations (field / cell access paths) of byte slices that grow in the loop
					grown := map[string]bool{}
					for b := range body {
						for _, ins := range b.Instrs {
							st, ok := ins.(*ssa.Store)
							if !ok || !isByteSlice(st.Val.Type()) {
								continue
							}
							call, ok := st.Val.(*ssa.Call)
							if !ok {
								continue
							}
							if bi, ok := call.Call.Value.(*ssa.Builtin); !ok || bi.Name() != "append" {
								continue
							}
							if ld, ok := call.Call.Args[0].(*ssa.UnOp); ok && ld.Op == token.MUL && accessPath(ld.X) == accessPath(st.Addr) {
								grown[accessPath(st.Addr)] = true
							}
						}
					}
					if len(grown) == 0 {
						continue
					}
					// len(<load of a grown location>) computed outside the loop …
					for _, b := range fn.Blocks {
						if body[b] {
							continue
						}
						for _, ins := range b.Instrs {
							call, ok := ins.(*ssa.Call)
							if !ok {
								continue
							}
							bi, ok := call.Call.Value.(*ssa.Builtin)
							if !ok || bi.Name() != "len" {
								continue
							}
							ld, ok := call.Call.Args[0].(*ssa.UnOp)
							if !ok || ld.Op != token.MUL || !grown[accessPath(ld.X)] || !b.Dominates(h) {
								continue
							}
							// … and used inside it
							var usedIn ssa.Instruction
							seen := map[ssa.Value]bool{}
							var walk func(v ssa.Value, d int)
							walk = func(v ssa.Value, d int) {
								if seen[v] || d > 4 || v.Referrers() == nil || usedIn != nil {
									return
								}
								seen[v] = true
								for _, ref := range *v.Referrers() {
									if body[ref.Block()] {
										if _, isPhi := ref.(*ssa.Phi); isPhi && ref.Block() == h {
											continue // only the initial value of a loop-carried variable
										}
										usedIn = ref
										return
									}
									if cv, ok := ref.(*ssa.Convert); ok {
										walk(cv, d+1)
									}
								}
							}
							walk(call, 0)
							key := fnName(fn) + "/len-before-loop-" + strings.TrimPrefix(accessPath(ld.X), "*")
							if usedIn != nil {
								r.bad(key, fnName(fn), c.pos(usedIn.Pos()), "the length of "+strings.TrimPrefix(accessPath(ld.X), "*")+" is measured before the loop (at "+c.pos(call.Pos())+") but used inside the loop that appends to it: every piece appended after the first is recorded with the first piece's start offset")
							}
						}
					}
				}
			}
		},
	})
}

func init() {
	register(&Rule{
		Name:  "TERM-FREQ-ACCUMULATED",
		Floor: 1,
		Doc:   "where the builder rolls up the terms of a field instance into the per-document tokenFreq entries, every path through the handling of one term stores the entry's frequency from that term's Frequency() — setting it for a new entry, adding to it for an entry that exists already (a field name repeated in one document): no occurrence of a term is left out of the summed term frequency",
		Run: func(c *Ctx, scope string, r *Report) {
			n := 0
			for _, fn := range c.srcFns {
				// functions that handle one FieldTerm: they invoke Frequency() on the term interface
				var freqCalls []*ssa.Call
				for _, b := range fn.Blocks {
					for _, ins := range b.Instrs {
						if call, ok := ins.(*ssa.Call); ok && call.Call.IsInvoke() && call.Call.Method.Name() == "Frequency" && strings.HasSuffix(call.Call.Value.Type().String(), "bluge_segment_api.FieldTerm") {
							freqCalls = append(freqCalls, call)
						}
					}
				}
				if len(freqCalls) == 0 {
					continue
				}
				dependsOnFreq := func(v ssa.Value) bool {
					seen := map[ssa.Value]bool{}
					var walk func(v ssa.Value, d int) bool
					walk = func(v ssa.Value, d int) bool {
						if d > 6 || seen[v] {
							return false
						}
						seen[v] = true
						for _, fc := range freqCalls {
							if v == ssa.Value(fc) {
								return true
							}
						}
						switch x := v.(type) {
						case *ssa.BinOp:
							return walk(x.X, d+1) || walk(x.Y, d+1)
						case *ssa.Convert:
							return walk(x.X, d+1)
						case *ssa.Phi:
							for _, e := range x.Edges {
								if walk(e, d+1) {
									return true
								}
							}
						}
						return false
					}
					return walk(v, 0)
				}
				via := map[*ssa.BasicBlock]bool{}
				overwrite := ""
				for _, b := range fn.Blocks {
					for _, ins := range b.Instrs {
						st, ok := ins.(*ssa.Store)
						if !ok {
							continue
						}
						fa, ok := st.Addr.(*ssa.FieldAddr)
						if !ok {
							continue
						}
						owner, f := fieldAddrInfo(fa)
						if owner == nil || f == nil || owner.Obj().Name() != "tokenFreq" || f.Name() != "frequency" {
							continue
						}
						if dependsOnFreq(st.Val) {
							via[b] = true
							// an entry that may exist already (not allocated on this path) is ADDED to
							if _, fresh := fa.X.(*ssa.Alloc); !fresh && !addsToOwnField(st.Val, fa) {
								overwrite = c.pos(st.Pos())
							}
						}
					}
				}
				if len(via) == 0 {
					continue // uses Frequency() for something else (e.g. statistics)
				}
				if overwrite != "" {
					n++
					r.bad(fnName(fn)+"/frequency-on-every-path", fnName(fn), c.pos(fn.Pos()), "the frequency of an entry that may exist already is overwritten at "+overwrite+" with this term's Frequency() instead of being added to: a field name repeated in one document keeps the frequency of its last instance only")
					continue
				}
				n++
				key := fnName(fn) + "/frequency-on-every-path"
				bad := ""
				for _, b := range fn.Blocks {
					if ret, ok := b.Instrs[len(b.Instrs)-1].(*ssa.Return); ok && !coveredOnAllPaths(fn, via, b) {
						bad = c.pos(retPos(ret, b))
					}
				}
				if bad == "" {
					r.ok(key, fnName(fn), c.pos(fn.Pos()), "every path stores the entry's frequency from this term's Frequency()")
				} else {
					r.bad(key, fnName(fn), c.pos(fn.Pos()), "a path through the handling of one term (return at "+bad+") does not add the term's Frequency() to its entry: a field name repeated in one document loses the frequency of its later instances")
				}
			}
			if n == 0 {
				r.undecided("term-frequency", "", "-", "cannot find where the builder rolls term frequencies up into tokenFreq entries")
			}
		},
	})
}

// mustResetBuffer: every return of fn is preceded by bytes.Buffer.Reset on the
// buffer at the given access path.
func mustResetBuffer(fn *ssa.Function, path string) bool {
	var resets []*ssa.BasicBlock
	for _, b := range fn.Blocks {
		for _, ins := range b.Instrs {
			if ci, ok := ins.(ssa.CallInstruction); ok {
				if sc := ci.Common().StaticCallee(); sc != nil && funcFullName(sc) == "bytes.(*Buffer).Reset" && accessPath(ci.Common().Args[0]) == path {
					resets = append(resets, b)
				}
			}
		}
	}
	if len(resets) == 0 {
		return false
	}
	for _, b := range fn.Blocks {
		if _, ok := b.Instrs[len(b.Instrs)-1].(*ssa.Return); !ok {
			continue
		}
		covered := false
		for _, rb := range resets {
			if rb == b || rb.Dominates(b) {
				covered = true
			}
		}
		if !covered {
			return false
		}
	}
	return true
}

// returnsRestarted: every []byte result of fn, on every return that may
// report success, is built up from an empty slice made inside fn (p[:0] of a
// parameter, make, nil) - by append or through in-package helpers that get it
// as their []byte argument - never from what a []byte parameter held on entry.
func returnsRestarted(c *Ctx, fn *ssa.Function) bool {
	var classify func(v ssa.Value, seen map[ssa.Value]bool, d int) bool
	classify = func(v ssa.Value, seen map[ssa.Value]bool, d int) bool {
		if seen[v] {
			return true
		}
		seen[v] = true
		if d > 16 {
			return false
		}
		switch x := v.(type) {
		case *ssa.Const, *ssa.MakeSlice:
			return true
		case *ssa.Slice:
			if k, ok := constInt(x.High); ok && k == 0 && x.High != nil {
				return true
			}
			return classify(x.X, seen, d+1)
		case *ssa.Phi:
			for _, e := range x.Edges {
				if !classify(e, seen, d+1) {
					return false
				}
			}
			return true
		case *ssa.Extract:
			return classify(x.Tuple, seen, d+1)
		case *ssa.Call:
			if bi, ok := x.Call.Value.(*ssa.Builtin); ok && bi.Name() == "append" {
				return classify(x.Call.Args[0], seen, d+1)
			}
			n := 0
			for _, a := range x.Call.Args {
				if isByteSlice(a.Type()) {
					n++
					if !classify(a, seen, d+1) {
						return false
					}
				}
			}
			return n > 0
		}
		return false
	}
	nres := 0
	for _, rb := range maySucceedReturns(fn) {
		ret := rb.Instrs[len(rb.Instrs)-1].(*ssa.Return)
		for _, res := range ret.Results {
			if !isByteSlice(res.Type()) {
				continue
			}
			nres++
			if !classify(resolveLoad(res), map[ssa.Value]bool{}, 0) {
				return false
			}
		}
	}
	return nres > 0
}

// segmentHeld: v is (a copy of) a slice field of a Segment.
func segmentHeld(v ssa.Value) bool {
	ld, ok := v.(*ssa.UnOp)
	if !ok || ld.Op != token.MUL {
		return false
	}
	fa, ok := ld.X.(*ssa.FieldAddr)
	if !ok {
		return false
	}
	owner, _ := fieldAddrInfo(fa)
	return owner != nil && owner.Obj().Name() == "Segment"
}

// addsToOwnField: v is old + something, old being a load of the same field of
// the same object the value is stored to.
func addsToOwnField(v ssa.Value, dst *ssa.FieldAddr) bool {
	bin, ok := stripConv(v).(*ssa.BinOp)
	if !ok || bin.Op != token.ADD {
		return false
	}
	for _, side := range []ssa.Value{bin.X, bin.Y} {
		if ld, ok := stripConv(side).(*ssa.UnOp); ok && ld.Op == token.MUL {
			if fa, ok := ld.X.(*ssa.FieldAddr); ok && fa.Field == dst.Field && fa.X == dst.X {
				return true
			}
		}
	}
	return false
}

func init() {
	register(&Rule{
		Name:   "VALUE-RECORD-COMPLETE",
		Floor:  0,
		ZeroOK: true,
		Doc:    "the function that encodes the stored values of one field (it is handed the meta encoder as a function value) emits the same meta entries - field id, offset, length - for every value it is given: no path through one iteration of its loop over the values returns to the loop having called the meta encoder fewer times than another (an empty value is a value: skipping it shifts nothing in the data section but removes it from what the reader reports)",
		Run: func(c *Ctx, scope string, r *Report) {
			n := 0
			for _, fn := range c.srcFns {
				var enc *ssa.Parameter
				for _, p := range fn.Params {
					if sig, ok := p.Type().Underlying().(*types.Signature); ok && sig.Params().Len() == 1 && sig.Params().At(0).Type().String() == "uint64" && sig.Results().Len() == 2 {
						enc = p
					}
				}
				if enc == nil {
					continue
				}
				calls := func(b *ssa.BasicBlock) int {
					k := 0
					for _, ins := range b.Instrs {
						if call, ok := ins.(*ssa.Call); ok && call.Call.Value == ssa.Value(enc) {
							k++
						}
					}
					return k
				}
				for _, h := range fn.Blocks {
					if !isLoopHeader(h) {
						continue
					}
					body := loopBody(h)
					total := 0
					for b := range body {
						total += calls(b)
					}
					if total == 0 {
						continue
					}
					n++
					key := fnName(fn) + "/meta-entries-per-value"
					paths, complete := iterPaths(h, h.Succs[0], body, 4000)
					if !complete {
						r.undecided(key, fnName(fn), c.pos(fn.Pos()), "too many paths through the per-value loop")
						continue
					}
					first, bad := -1, ""
					for _, p := range paths {
						if p.exit {
							continue
						}
						k := 0
						for _, b := range p.blocks {
							k += calls(b)
						}
						if first < 0 {
							first = k
						} else if k != first {
							bad = fmt.Sprintf("one path through an iteration of the per-value loop calls the meta encoder %d times, another %d times (blocks %s): some values get no meta entry and are lost to the reader", first, k, blockList(p.blocks))
						}
					}
					if bad != "" {
						r.bad(key, fnName(fn), c.pos(fn.Pos()), bad)
					} else {
						r.ok(key, fnName(fn), c.pos(fn.Pos()), fmt.Sprintf("every value gets %d meta entries", first))
					}
				}
			}
			_ = n // a design without a meta-encoder callback has no such loop: nothing to check (controls keep the rule honest)
		},
	})
}
