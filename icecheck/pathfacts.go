package main

import (
	"go/token"
	"go/types"
	"strings"
	"sync"

	"golang.org/x/tools/go/ssa"
)

// Path facts: what a branch tells about a *place* (an access path such as
// `*p.postings`, rooted at a parameter or a local) rather than about one SSA
// value: the place holds a non-zero / zero value on that edge.  Two loads of the
// same field are different SSA values, and a test may be hidden in a small
// predicate method (`if d.hasTerms() {`, `if p.isEmptyList() { return }`): the
// rules that ask "is this field known to be non-nil here" need both.
//
// The facts assume that the place is not written between the test and the use;
// the rules that consult them are about fields that are set when the object is
// established (the same assumption the value-based tests make for two loads).

type pathFact struct {
	path    string // accessPath of the loaded place, e.g. "*d.fst", "**i.postings.postings"
	nonzero bool
}

type edgePathFact struct {
	edge *ssa.BasicBlock
	pathFact
}

var pathFactCache sync.Map // *ssa.Function -> []edgePathFact

const predPlaceholder = "\x00arg"

func placeholder(i int) string { return predPlaceholder + string(rune('A'+i)) + "\x00" }

// atomPathFacts: the path facts of one atomic condition that is known true/false.
func atomPathFacts(cf condFact, depth int) []pathFact {
	isZero := func(v ssa.Value) bool { return isNilConst(v) || isZeroConst(v) }
	place := func(v ssa.Value) (string, bool) {
		v = stripConv(v)
		switch x := v.(type) {
		case *ssa.UnOp:
			if x.Op == token.MUL {
				if _, ok := x.X.(*ssa.FieldAddr); ok {
					return accessPath(x), true
				}
				if _, ok := x.X.(*ssa.Alloc); ok {
					return accessPath(x), true
				}
			}
		case *ssa.Parameter:
			return accessPath(x), true
		case *ssa.Call:
			// len(place)
			if b, ok := x.Call.Value.(*ssa.Builtin); ok && b.Name() == "len" && len(x.Call.Args) == 1 {
				if _, isSlice := x.Call.Args[0].Type().Underlying().(*types.Slice); isSlice {
					// a non-empty slice is non-nil; an empty one says nothing about nil-ness
					return "", false
				}
			}
		}
		return "", false
	}
	switch x := cf.cond.(type) {
	case *ssa.BinOp:
		a, b := x.X, x.Y
		if isZero(a) {
			a, b = b, a
		}
		if !isZero(b) {
			return nil
		}
		p, ok := place(a)
		if !ok {
			return nil
		}
		switch x.Op {
		case token.NEQ, token.GTR:
			if x.Op == token.GTR && !cf.truth {
				// !(a > 0): zero only for unsigned
				if bt, ok := a.Type().Underlying().(*types.Basic); !ok || bt.Info()&types.IsUnsigned == 0 {
					return nil
				}
			}
			return []pathFact{{p, cf.truth}}
		case token.EQL:
			return []pathFact{{p, !cf.truth}}
		}
	case *ssa.UnOp:
		if x.Op == token.MUL {
			if bt, ok := x.Type().Underlying().(*types.Basic); ok && bt.Kind() == types.Bool {
				if p, ok := place(x); ok {
					return []pathFact{{p, cf.truth}}
				}
			}
		}
	case *ssa.Call:
		// a niladic bool method of a place whose body is not ours (an interface method, a
		// dependency): `i.Actual.HasNext()` becomes the pseudo-place "*i.Actual.HasNext()"
		if x.Call.IsInvoke() && len(x.Call.Args) == 0 {
			if p, ok := place(x.Call.Value); ok {
				return []pathFact{{p + "." + x.Call.Method.Name() + "()", cf.truth}}
			}
			return nil
		}
		callee := x.Call.StaticCallee()
		if callee != nil && callee.Blocks == nil && len(x.Call.Args) == 1 && callee.Signature.Recv() != nil {
			if p, ok := place(x.Call.Args[0]); ok {
				return []pathFact{{p + "." + callee.Name() + "()", cf.truth}}
			}
			return nil
		}
		if callee == nil || depth > 2 {
			return nil
		}
		wt, wf, ok := predicateSummary(callee, depth+1)
		if !ok {
			return nil
		}
		src := wf
		if cf.truth {
			src = wt
		}
		var out []pathFact
		for _, f := range src {
			path := f.path
			bound := true
			for i := range callee.Params {
				ph := placeholder(i)
				if strings.Contains(path, ph) {
					if i >= len(x.Call.Args) {
						bound = false
						break
					}
					path = strings.Replace(path, ph, accessPath(stripConv(x.Call.Args[i])), -1)
				}
			}
			if bound && !strings.Contains(path, predPlaceholder) {
				out = append(out, pathFact{path, f.nonzero})
			}
		}
		return out
	}
	return nil
}

func edgePathFacts(fn *ssa.Function) []edgePathFact {
	return edgePathFactsDepth(fn, 0)
}

func edgePathFactsDepth(fn *ssa.Function, depth int) []edgePathFact {
	if depth == 0 {
		if v, ok := pathFactCache.Load(fn); ok {
			return v.([]edgePathFact)
		}
	}
	var out []edgePathFact
	edgeFacts(fn, func(edge *ssa.BasicBlock, cf condFact) {
		for _, pf := range atomPathFacts(cf, depth) {
			out = append(out, edgePathFact{edge, pf})
		}
	})
	if depth == 0 {
		pathFactCache.Store(fn, out)
	}
	return out
}

// pathKnown: the place is known non-zero (want) / zero (!want) on entry to b.
func pathKnown(fn *ssa.Function, path string, want bool, b *ssa.BasicBlock) bool {
	if fn == nil || b == nil || path == "" {
		return false
	}
	for _, f := range edgePathFacts(fn) {
		if f.path == path && f.nonzero == want && (f.edge == b || f.edge.Dominates(b)) {
			return true
		}
	}
	return false
}

type predSummary struct {
	whenTrue, whenFalse []pathFact
	ok                  bool
}

var predSummaryCache sync.Map // *ssa.Function -> predSummary

// predicateSummary: for a small side-effect-free function with one bool result,
// the path facts (over placeholders for its parameters) that hold whenever it
// returns true, and whenever it returns false.
func predicateSummary(fn *ssa.Function, depth int) (whenTrue, whenFalse []pathFact, ok bool) {
	if v, hit := predSummaryCache.Load(fn); hit {
		s := v.(predSummary)
		return s.whenTrue, s.whenFalse, s.ok
	}
	store := func(s predSummary) ([]pathFact, []pathFact, bool) {
		predSummaryCache.Store(fn, s)
		return s.whenTrue, s.whenFalse, s.ok
	}
	if fn == nil || fn.Blocks == nil || len(fn.Blocks) > 14 || fn.Signature.Results().Len() != 1 || !isBoolType(fn.Signature.Results().At(0).Type()) {
		return store(predSummary{})
	}
	for _, b := range fn.Blocks {
		for _, ins := range b.Instrs {
			switch ins.(type) {
			case *ssa.Store, *ssa.MapUpdate, *ssa.Send, *ssa.Go, *ssa.Defer, *ssa.Panic:
				return store(predSummary{})
			}
		}
	}
	// paths over the callee's own parameter names -> placeholders
	toPlaceholder := func(path string) (string, bool) {
		for i, p := range fn.Params {
			name := p.Name()
			// the root is the only identifier in an access path that is neither preceded by '.' nor part of another
			idx := strings.Index(path, name)
			for idx >= 0 {
				before := idx == 0 || path[idx-1] == '*'
				after := idx+len(name) == len(path) || path[idx+len(name)] == '.'
				if before && after {
					return path[:idx] + placeholder(i) + path[idx+len(name):], true
				}
				nx := strings.Index(path[idx+1:], name)
				if nx < 0 {
					break
				}
				idx += 1 + nx
			}
		}
		return "", false
	}
	facts := edgePathFactsDepth(fn, depth)
	var tSets, fSets []map[pathFact]bool
	for _, b := range fn.Blocks {
		ret, isRet := b.Instrs[len(b.Instrs)-1].(*ssa.Return)
		if !isRet || len(ret.Results) != 1 {
			continue
		}
		base := map[pathFact]bool{}
		for _, f := range facts {
			if f.edge == b || f.edge.Dominates(b) {
				if ph, ok := toPlaceholder(f.path); ok {
					base[pathFact{ph, f.nonzero}] = true
				}
			}
		}
		res := ret.Results[0]
		for _, truth := range []bool{true, false} {
			if k, isK := res.(*ssa.Const); isK && k.Value != nil {
				if (k.Value.String() == "true") != truth {
					continue // this return never yields `truth`
				}
			}
			set := map[pathFact]bool{}
			for f := range base {
				set[f] = true
			}
			if _, isK := res.(*ssa.Const); !isK {
				for _, cf := range condFacts(res, truth, 0) {
					for _, pf := range atomPathFacts(cf, depth) {
						if ph, ok := toPlaceholder(pf.path); ok {
							set[pathFact{ph, pf.nonzero}] = true
						}
					}
				}
			}
			if truth {
				tSets = append(tSets, set)
			} else {
				fSets = append(fSets, set)
			}
		}
	}
	inter := func(sets []map[pathFact]bool) []pathFact {
		if len(sets) == 0 {
			return nil
		}
		var out []pathFact
		for f := range sets[0] {
			all := true
			for _, s := range sets[1:] {
				if !s[f] {
					all = false
				}
			}
			if all {
				out = append(out, f)
			}
		}
		return out
	}
	return store(predSummary{inter(tSets), inter(fSets), true})
}

// rootParam: the parameter of fn an access path is rooted at, and the path with
// that root replaced by a placeholder.
func pathRootParam(fn *ssa.Function, path string) (int, string, bool) {
	for i, p := range fn.Params {
		name := p.Name()
		idx := strings.Index(path, name)
		for idx >= 0 {
			before := idx == 0 || path[idx-1] == '*'
			after := idx+len(name) == len(path) || path[idx+len(name)] == '.'
			if before && after {
				return i, path[:idx] + placeholder(0) + path[idx+len(name):], true
			}
			nx := strings.Index(path[idx+1:], name)
			if nx < 0 {
				break
			}
			idx += 1 + nx
		}
	}
	return 0, "", false
}

// pathKnownUp: the place is known non-zero / zero at b in fn - or fn is an
// unexported helper, the place is rooted at one of its parameters, and the
// same holds for the argument at every call of fn (the caller decides, the
// helper relies on it).
func (c *Ctx) pathKnownUp(fn *ssa.Function, path string, want bool, b *ssa.BasicBlock, depth int) bool {
	if pathKnown(fn, path, want, b) {
		return true
	}
	if depth > 2 || fn.Parent() != nil || token.IsExported(fn.Name()) {
		return false
	}
	pi, tmpl, ok := pathRootParam(fn, path)
	if !ok {
		return false
	}
	sites := 0
	for _, caller := range c.srcFns {
		for _, cb := range caller.Blocks {
			for _, ins := range cb.Instrs {
				call, isCall := ins.(*ssa.Call)
				if !isCall || call.Call.StaticCallee() != fn || pi >= len(call.Call.Args) {
					continue
				}
				sites++
				arg := accessPath(stripConv(call.Call.Args[pi]))
				if !c.pathKnownUp(caller, strings.Replace(tmpl, placeholder(0), arg, -1), want, cb, depth+1) {
					return false
				}
			}
		}
	}
	return sites > 0
}
