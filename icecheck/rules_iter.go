package main

// C05 — postings iterator: structural necessary conditions of navigation.
// (Which posting Next/Advance returns is a relation over runtime cursors and
// is NOT decided; these rules decide agreements the navigation relies on.)

import (
	"fmt"
	"go/constant"
	"go/token"
	"go/types"
	"math"
	"sort"
	"strings"

	"golang.org/x/tools/go/ssa"
)

func methodCallsOnField(fn *ssa.Function, field string) []ssa.CallInstruction {
	var out []ssa.CallInstruction
	for _, b := range fn.Blocks {
		for _, ins := range b.Instrs {
			ci, ok := ins.(ssa.CallInstruction)
			if !ok || len(ci.Common().Args) == 0 || ci.Common().StaticCallee() == nil {
				continue
			}
			if exprSig(ci.Common().Args[0], 0) == "."+field {
				out = append(out, ci)
			}
		}
	}
	return out
}

func countCalls(cis []ssa.CallInstruction, name string) int {
	n := 0
	for _, ci := range cis {
		if ci.Common().StaticCallee().Name() == name {
			n++
		}
	}
	return n
}

// readerFlagSuffix: for the two decoder flags, the place (relative to the iterator)
// under which (*PostingsList).iterator creates the decoder: ".includeLocs" today,
// ".details.locs" after the flags were grouped.
var readerFlagSuffix = map[string]string{}

func (c *Ctx) deriveReaderFlags() {
	readerFlagSuffix = map[string]string{}
	it := c.byName["(*PostingsList).iterator"]
	if it == nil || it.Blocks == nil {
		return
	}
	creators := []*ssa.Function{it}
	for _, sc := range staticCallees(it) {
		if c.inRoot(sc) && sc.Blocks != nil && len(callsOf(sc, "newChunkedIntDecoder")) > 0 {
			creators = append(creators, sc)
		}
	}
	for flag, field := range map[string]string{"includeLocs": "locReader", "includeFreqNorm": "freqNormReader"} {
		for _, cf := range creators {
			for _, call := range callsOf(cf, "newChunkedIntDecoder") {
				ex := tupleParts(call)[0]
				if ex == nil || ex.Referrers() == nil {
					continue
				}
				stores := false
				var root ssa.Value
				for _, ref := range *ex.Referrers() {
					if st, isSt := ref.(*ssa.Store); isSt && strings.HasSuffix(exprSig(st.Addr, 0), "."+field) {
						stores = true
						if fa, ok := st.Addr.(*ssa.FieldAddr); ok {
							root = fa.X
							for {
								inner, ok := root.(*ssa.FieldAddr)
								if !ok {
									break
								}
								root = inner.X
							}
						}
					}
				}
				if !stores || root == nil {
					continue
				}
				prefix := "*" + accessPath(root) + "."
				// the closest dominating test of a place of the iterator
				var best *edgePathFact
				facts := edgePathFacts(cf)
				for i := range facts {
					f := &facts[i]
					if !f.nonzero || !strings.HasPrefix(f.path, prefix) || strings.HasSuffix(f.path, "Reader") {
						continue
					}
					if !(f.edge == call.Block() || f.edge.Dominates(call.Block())) {
						continue
					}
					if best == nil || best.edge.Dominates(f.edge) {
						best = f
					}
				}
				if best != nil {
					readerFlagSuffix[flag] = "." + best.path[len(prefix):]
				}
			}
		}
	}
}

// flagTrueDominates: block b is dominated by the true edge of a test of the
// boolean field .flag of the receiver.
func flagTrueDominates(fn *ssa.Function, flag string, b *ssa.BasicBlock) bool {
	// the flag may have moved (into a by-value struct of the iterator) or be tested through a
	// predicate: a path fact about the place under which the decoder is created
	if suffix := readerFlagSuffix[flag]; suffix != "" {
		for _, f := range edgePathFacts(fn) {
			if !f.nonzero || !strings.HasPrefix(f.path, "*") || !strings.HasSuffix(f.path, suffix) {
				continue
			}
			// "*<one root>" + suffix: the flag of an iterator (the receiver, or the one being set up)
			if root := f.path[1 : len(f.path)-len(suffix)]; root == "" || strings.ContainsAny(root, ".*") {
				continue
			}
			if f.edge == b || f.edge.Dominates(b) {
				return true
			}
		}
	}
	for _, blk := range fn.Blocks {
		ifi, ok := blk.Instrs[len(blk.Instrs)-1].(*ssa.If)
		if !ok {
			continue
		}
		cond := ifi.Cond
		neg := false
		if u, ok := cond.(*ssa.UnOp); ok && u.Op == token.NOT {
			cond, neg = u.X, true
		}
		if exprSig(cond, 0) != "."+flag {
			continue
		}
		t := blk.Succs[0]
		if neg {
			t = blk.Succs[1]
		}
		if len(t.Preds) == 1 && (t == b || t.Dominates(b)) {
			return true
		}
	}
	return false
}

// oneHitConsumed: on every path from block region of fn to a return dominated
// by it, the single hit is consumed: a store docNum1Hit = MaxUint64, the true
// edge of docNum1Hit == MaxUint64, or a call of a method on the same iterator
// all of whose returns have that property (the branch extracted into a helper).
func oneHitConsumed(c *Ctx, fn *ssa.Function, region *ssa.BasicBlock, depth int) (bad string, nret int) {
	via := map[*ssa.BasicBlock]bool{}
	viaEdge := map[[2]*ssa.BasicBlock]bool{}
	for _, x := range fn.Blocks {
		if !(region == x || region.Dominates(x)) {
			continue
		}
		for _, ins := range x.Instrs {
			if st, ok := ins.(*ssa.Store); ok && exprSig(st.Addr, 0) == ".docNum1Hit" && isMaxUint64(st.Val) {
				via[x] = true
			}
			if ci, ok := ins.(ssa.CallInstruction); ok && depth < 2 && len(fn.Params) > 0 {
				sc := ci.Common().StaticCallee()
				// a method of the iterator, or of a cursor struct it holds by value (&i.cursor)
				onRecv := false
				if sc != nil && len(ci.Common().Args) > 0 {
					a0 := ci.Common().Args[0]
					onRecv = a0 == ssa.Value(fn.Params[0])
					if fa, isFA := a0.(*ssa.FieldAddr); isFA && fa.X == ssa.Value(fn.Params[0]) {
						onRecv = true
					}
				}
				if sc != nil && c.inRoot(sc) && sc.Blocks != nil && onRecv && sc.Signature.Recv() != nil {
					if b2, n2 := oneHitConsumed(c, sc, sc.Blocks[0], depth+1); b2 == "" && n2 > 0 && consumesSomewhere(c, sc, 0) {
						via[x] = true
					}
				}
			}
		}
		if ifi, ok := x.Instrs[len(x.Instrs)-1].(*ssa.If); ok {
			// "already consumed" spelled as a predicate (finished()) or as a flag that is set
			// wherever the sentinel is stored
			for si := range x.Succs {
				for _, cf := range condFacts(ifi.Cond, si == 0, 0) {
					if consumedAtom(c, cf) {
						viaEdge[[2]*ssa.BasicBlock{x, x.Succs[si]}] = true
					}
				}
			}
			// the edge on which docNum1Hit == sentinel holds (the block it leads to may
			// have other predecessors, e.g. in `a == sentinel || a < target`)
			if bin, ok := ifi.Cond.(*ssa.BinOp); ok && bin.Op == token.EQL && exprSig(bin.X, 0) == ".docNum1Hit" && isMaxUint64(bin.Y) {
				viaEdge[[2]*ssa.BasicBlock{x, x.Succs[0]}] = true
			}
			if bin, ok := ifi.Cond.(*ssa.BinOp); ok && bin.Op == token.NEQ && exprSig(bin.X, 0) == ".docNum1Hit" && isMaxUint64(bin.Y) {
				viaEdge[[2]*ssa.BasicBlock{x, x.Succs[1]}] = true
			}
		}
	}
	for _, b := range fn.Blocks {
		if !(region == b || region.Dominates(b)) {
			continue
		}
		ret, ok := b.Instrs[len(b.Instrs)-1].(*ssa.Return)
		if !ok {
			continue
		}
		nret++
		if !coveredFromEdges(region, via, viaEdge, b) {
			bad = "a return of the 1-hit branch at " + c.pos(retPos(ret, b)) + " leaves the single hit unconsumed: a later Next/Advance would return it again"
		}
	}
	return bad, nret
}

// consumesSomewhere: fn (or a callee on the same receiver) stores the consumed
// sentinel into docNum1Hit.
func consumesSomewhere(c *Ctx, fn *ssa.Function, depth int) bool {
	for _, b := range fn.Blocks {
		for _, ins := range b.Instrs {
			if st, ok := ins.(*ssa.Store); ok && strings.HasSuffix(exprSig(st.Addr, 0), ".docNum1Hit") && isMaxUint64(st.Val) {
				return true
			}
			if call, ok := ins.(*ssa.Call); ok && depth < 2 {
				if sc := call.Call.StaticCallee(); sc != nil && c.inRoot(sc) && sc.Blocks != nil && sc != fn && consumesSomewhere(c, sc, depth+1) {
					return true
				}
			}
		}
	}
	return false
}

// consumedFlags: bool fields that are stored true only in blocks that also store
// the consumed sentinel into docNum1Hit (a flag kept beside the sentinel).
func consumedFlags(c *Ctx) map[string]bool {
	good, bad := map[string]bool{}, map[string]bool{}
	for _, fn := range c.srcFns {
		for _, b := range fn.Blocks {
			sentinel := false
			var flags []string
			for _, ins := range b.Instrs {
				st, ok := ins.(*ssa.Store)
				if !ok {
					continue
				}
				sig := exprSig(st.Addr, 0)
				if strings.HasSuffix(sig, ".docNum1Hit") && isMaxUint64(st.Val) {
					sentinel = true
				}
				if k, isK := st.Val.(*ssa.Const); isK && k.Value != nil && k.Value.String() == "true" && strings.HasPrefix(sig, ".") {
					flags = append(flags, sig)
				}
			}
			for _, f := range flags {
				if sentinel {
					good[f] = true
				} else {
					bad[f] = true
				}
			}
		}
	}
	for f := range bad {
		delete(good, f)
	}
	return good
}

// consumedAtom: the fact says that the 1-hit has been consumed already.
func consumedAtom(c *Ctx, cf condFact) bool {
	switch x := cf.cond.(type) {
	case *ssa.BinOp:
		if strings.HasSuffix(exprSig(x.X, 0), ".docNum1Hit") && isMaxUint64(x.Y) {
			return (x.Op == token.EQL) == cf.truth && (x.Op == token.EQL || x.Op == token.NEQ)
		}
	case *ssa.UnOp:
		if x.Op == token.MUL && cf.truth && consumedFlags(c)[exprSig(x.X, 0)] {
			return true
		}
		if x.Op == token.MUL && cf.truth {
			if fa, ok := x.X.(*ssa.FieldAddr); ok && consumedFlags(c)[exprSig(fa, 0)] {
				return true
			}
		}
	case *ssa.Call:
		// a predicate whose true result means "docNum1Hit == sentinel"
		sc := x.Call.StaticCallee()
		if sc == nil || sc.Blocks == nil || !cf.truth {
			return false
		}
		for _, b := range sc.Blocks {
			ret, ok := b.Instrs[len(b.Instrs)-1].(*ssa.Return)
			if !ok || len(ret.Results) != 1 {
				continue
			}
			all := true
			for _, inner := range condFacts(ret.Results[0], true, 0) {
				if !consumedAtom(c, inner) {
					all = false
				}
			}
			if len(sc.Blocks) == 1 && all && len(condFacts(ret.Results[0], true, 0)) > 0 {
				return true
			}
		}
	}
	return false
}

func init() {
	register(&Rule{
		Name:  "ENTRY-ARITY",
		Floor: 6,
		Doc:   "writer and readers agree on the shape of one posting in the two integer streams: the freq/norm stream carries exactly two uvarints per posting (freq<<1|hasLocs, norm) — written by tfEncoder.Add, read by readFreqNormHasLocs (2 reads) and skipped by skipFreqNormReadHasLocs (1 read + 1 skip, hasLocs = value&1); the location stream carries a byte-count prefix then 4 uvarints per location — readLocation reads 4, nextAtOrAfter reads the prefix and loops until that many bytes are consumed, currChunkNext reads the prefix and skips exactly that many bytes",
		Run: func(c *Ctx, scope string, r *Report) {
			c.deriveReaderFlags()
			// writers
			// (the functions that feed the freq/norm encoder: those that build the freq word,
			// and the two writers' term loops when they feed an encoder they call tfEncoder)
			writers := c.fnsCalling("encodeFreqHasLocs")
			for _, name := range []string{"(*interim).writeDictsTermField", "mergeTermFreqNormLocs"} {
				if f := c.byName[name]; f != nil && f.Blocks != nil && len(callsOf(f, "encodeFreqHasLocs")) == 0 && paramNamed(f, "tfEncoder") != nil && len(callsOf(f, "(*chunkedIntCoder).Add")) > 0 {
					writers = append(writers, f)
				}
			}
			nTf := 0
			for _, fn := range writers {
				name := fnName(fn)
				// the freq/norm encoder: the receiver of the Add calls that carry
				// encodeFreqHasLocs (however the encoder is named or passed)
				hasEnc := func(add *ssa.Call) bool {
					for _, v := range varargValues(add.Call.Args[2]) {
						if call, ok := v.(*ssa.Call); ok && call.Call.StaticCallee() != nil && fnName(call.Call.StaticCallee()) == "encodeFreqHasLocs" {
							return true
						}
					}
					return false
				}
				tfRecv := map[string]bool{}
				for _, add := range callsOf(fn, "(*chunkedIntCoder).Add") {
					if hasEnc(add) {
						tfRecv[exprSig(add.Call.Args[0], 0)] = true
					}
				}
				if p := paramNamed(fn, "tfEncoder"); p != nil {
					tfRecv[exprSig(p, 0)] = true
				}
				n := 0
				for _, add := range callsOf(fn, "(*chunkedIntCoder).Add") {
					if !tfRecv[exprSig(add.Call.Args[0], 0)] {
						continue
					}
					n++
					key := name + "/tf-entry"
					vals := varargValues(add.Call.Args[2])
					if len(vals) != 2 {
						r.bad(key, name, c.pos(add.Pos()), fmt.Sprintf("the freq/norm encoder is given %d values per posting, the readers consume 2", len(vals)))
						continue
					}
					if call, ok := vals[0].(*ssa.Call); !ok || call.Call.StaticCallee() == nil || fnName(call.Call.StaticCallee()) != "encodeFreqHasLocs" {
						r.bad(key, name, c.pos(add.Pos()), "the first value of a freq/norm entry is not encodeFreqHasLocs(freq, hasLocs)")
						continue
					}
					r.ok(key, name, c.pos(add.Pos()), "2 values per posting: encodeFreqHasLocs(freq, hasLocs), norm")
				}
				nTf += n
			}
			if nTf < 2 {
				r.undecided("writers/tf-entry", "", "-", fmt.Sprintf("%d freq/norm Add sites found, the builder and the merger each have one", nTf))
			}
			// readers of the freq/norm stream
			rd := c.MustFn("(*PostingsIterator).readFreqNormHasLocs")
			cis := methodCallsOnField(rd, "freqNormReader")
			if countCalls(cis, "readUvarint") == 2 && len(cis) == 2 {
				r.ok(fnName(rd)+"/tf-entry", fnName(rd), c.pos(rd.Pos()), "reads 2 uvarints per posting")
			} else {
				r.bad(fnName(rd)+"/tf-entry", fnName(rd), c.pos(rd.Pos()), fmt.Sprintf("reads %d uvarints (of %d reader calls) per posting, the writer emits 2", countCalls(cis, "readUvarint"), len(cis)))
			}
			sk := c.MustFn("(*PostingsIterator).skipFreqNormReadHasLocs")
			cis = methodCallsOnField(sk, "freqNormReader")
			okBit := false
			for _, b := range sk.Blocks {
				for _, ins := range b.Instrs {
					if bin, ok := ins.(*ssa.BinOp); ok && bin.Op == token.AND {
						if k, ok := constInt(bin.Y); ok && k == 1 {
							okBit = true
						}
					}
				}
			}
			if countCalls(cis, "readUvarint") == 1 && countCalls(cis, "SkipUvarint") == 1 && len(cis) == 2 && okBit {
				r.ok(fnName(sk)+"/tf-entry", fnName(sk), c.pos(sk.Pos()), "consumes 2 uvarints per skipped posting; hasLocs = value & 1")
			} else {
				r.bad(fnName(sk)+"/tf-entry", fnName(sk), c.pos(sk.Pos()), "skipping a posting does not consume exactly (1 read + 1 skip) uvarints with hasLocs = value&1: later postings would be decoded out of step")
			}
			// location stream
			rl := c.MustFn("(*PostingsIterator).readLocation")
			cis = methodCallsOnField(rl, "locReader")
			if countCalls(cis, "readUvarint") == 4 && len(cis) == 4 {
				r.ok(fnName(rl)+"/loc-entry", fnName(rl), c.pos(rl.Pos()), "reads 4 uvarints per location")
			} else {
				r.bad(fnName(rl)+"/loc-entry", fnName(rl), c.pos(rl.Pos()), fmt.Sprintf("reads %d uvarints per location, the writer emits 4", countCalls(cis, "readUvarint")))
			}
			// currChunkNext: prefix read then SkipBytes(prefix)
			cn := c.MustFn("(*PostingsIterator).currChunkNext")
			key := fnName(cn) + "/loc-skip"
			okSkip := false
			skipsPrefix := func(f *ssa.Function) (ssa.CallInstruction, bool) {
				for _, ci := range methodCallsOnField(f, "locReader") {
					if ci.Common().StaticCallee().Name() != "SkipBytes" {
						continue
					}
					arg := stripConv(ci.Common().Args[1])
					if ex, ok := arg.(*ssa.Extract); ok && ex.Index == 0 {
						if call, ok := ex.Tuple.(*ssa.Call); ok && call.Call.StaticCallee() != nil && call.Call.StaticCallee().Name() == "readUvarint" && exprSig(call.Call.Args[0], 0) == ".locReader" {
							return ci, true
						}
					}
				}
				return nil, false
			}
			if ci, ok := skipsPrefix(cn); ok {
				okSkip = flagTrueDominates(cn, "includeLocs", ci.Block())
			} else {
				// the skip extracted into a method of the iterator, called under the flag
				for _, b := range cn.Blocks {
					for _, ins := range b.Instrs {
						hc, isCall := ins.(ssa.CallInstruction)
						if !isCall {
							continue
						}
						sc := hc.Common().StaticCallee()
						if sc == nil || !c.inRoot(sc) || sc.Blocks == nil || len(hc.Common().Args) == 0 || hc.Common().Args[0] != ssa.Value(cn.Params[0]) {
							continue
						}
						if ci, ok := skipsPrefix(sc); ok && (flagTrueDominates(cn, "includeLocs", b) || flagTrueDominates(sc, "includeLocs", ci.Block())) {
							okSkip = true
						}
					}
				}
			}
			if okSkip {
				r.ok(key, fnName(cn), c.pos(cn.Pos()), "skips exactly the byte count read from the location stream, only when locations are included")
			} else {
				r.bad(key, fnName(cn), c.pos(cn.Pos()), "a skipped posting's locations are not skipped by exactly the byte-count prefix read from the stream (under includeLocs && hasLocs)")
			}
			// nextAtOrAfter: loop until prefix bytes consumed
			na := c.MustFn("(*PostingsIterator).nextAtOrAfter")
			key = fnName(na) + "/loc-read"
			okLoop := false
			// the loop lives where readLocation is called (nextAtOrAfter or a helper of it)
			var loopBlocks []*ssa.BasicBlock
			for _, lf := range c.fnsCalling("(*PostingsIterator).readLocation") {
				loopBlocks = append(loopBlocks, lf.Blocks...)
			}
			if len(loopBlocks) == 0 {
				loopBlocks = na.Blocks
			}
			for _, b := range loopBlocks {
				if !isLoopHeader(b) {
					continue
				}
				ifi, ok := b.Instrs[len(b.Instrs)-1].(*ssa.If)
				if !ok {
					continue
				}
				bin, ok := ifi.Cond.(*ssa.BinOp)
				if !ok || bin.Op != token.LSS {
					continue
				}
				lhs, rhs := exprSig(bin.X, 0), exprSig(bin.Y, 0)
				if strings.Contains(lhs, "(*chunkedIntDecoder).Len(") && strings.Contains(rhs, "(*chunkedIntDecoder).readUvarint(.locReader)#0") {
					okLoop = true
				}
			}
			if okLoop {
				r.ok(key, fnName(na), c.pos(na.Pos()), "reads locations until the byte-count prefix is consumed")
			} else {
				r.bad(key, fnName(na), c.pos(na.Pos()), "the location loop is not bounded by (bytes consumed < byte-count prefix read from the stream)")
			}
		},
	})

	register(&Rule{
		Name:  "READER-FLAG-GUARD",
		Floor: 6,
		Doc:   "the freq/norm and location decoders exist only when the iterator was created with the corresponding flags; every use of i.locReader is dominated by includeLocs and every use of i.freqNormReader by includeFreqNorm (or the function is only called from such guarded sites, transitively): no flag combination dereferences a missing decoder",
		Run: func(c *Ctx, scope string, r *Report) {
			c.deriveReaderFlags()
			pi := c.NamedType("PostingsIterator").Obj()
			readers := map[string]string{"locReader": "includeLocs", "freqNormReader": "includeFreqNorm"}
			// requires[fn][field] = true if fn uses the reader without a local guard
			requires := map[*ssa.Function]map[string]bool{}
			var methods []*ssa.Function
			for _, fn := range c.srcFns {
				if fn.Signature.Recv() != nil && namedOf(fn.Signature.Recv().Type()) != nil && namedOf(fn.Signature.Recv().Type()).Obj() == pi {
					methods = append(methods, fn)
				}
			}
			oneHitGuard := func(fn *ssa.Function, b *ssa.BasicBlock) bool {
				// the general-encoding part of a function: dominated by normBits1Hit == 0
				for _, blk := range fn.Blocks {
					ifi, ok := blk.Instrs[len(blk.Instrs)-1].(*ssa.If)
					if !ok {
						continue
					}
					bin, ok := ifi.Cond.(*ssa.BinOp)
					if !ok || exprSig(bin.X, 0) != ".normBits1Hit" {
						continue
					}
					z := blk.Succs[1]
					if bin.Op == token.EQL {
						z = blk.Succs[0]
					}
					if z == b || z.Dominates(b) {
						return true
					}
				}
				return false
			}
			for _, fn := range methods {
				for field, flag := range readers {
					for _, ci := range methodCallsOnField(fn, field) {
						if nilGuardBlock(ci) != nil {
							continue // explicitly tested for nil right here
						}
						if !flagTrueDominates(fn, flag, ci.Block()) {
							if requires[fn] == nil {
								requires[fn] = map[string]bool{}
							}
							requires[fn][field] = true
						}
					}
				}
			}
			// propagate: a call site of a requiring function that is not guarded makes the caller require too
			for changed := true; changed; {
				changed = false
				for _, fn := range methods {
					for callee, fields := range requires {
						for _, site := range c.callsTo(callee) {
							if site.Parent() != fn {
								continue
							}
							for field := range fields {
								if flagTrueDominates(fn, readers[field], site.Block()) {
									continue
								}
								if requires[fn] == nil {
									requires[fn] = map[string]bool{}
								}
								if !requires[fn][field] {
									requires[fn][field] = true
									changed = true
								}
							}
						}
					}
				}
			}
			es := c.entries()
			api := map[*ssa.Function]bool{}
			for _, f := range es.API {
				api[f] = true
			}
			n := 0
			for _, fn := range methods {
				for field, flag := range readers {
					uses := methodCallsOnField(fn, field)
					if len(uses) == 0 && !requires[fn][field] {
						continue
					}
					n++
					key := fnName(fn) + "/" + field
					switch {
					case requires[fn][field] && api[fn]:
						r.bad(key, fnName(fn), c.pos(fn.Pos()), "exported "+fnName(fn)+" can reach a use of i."+field+" that is not guarded by "+flag+": an iterator created without that flag dereferences a nil decoder")
					case requires[fn][field]:
						// internal helper: every caller is guarded (checked by propagation) — fine
						guardedCallers := true
						for _, site := range c.callsTo(fn) {
							if !flagTrueDominates(site.Parent(), flag, site.Block()) && !requires[site.Parent()][field] {
								guardedCallers = false
							}
						}
						if guardedCallers {
							r.ok(key, fnName(fn), c.pos(fn.Pos()), "uses i."+field+" unguarded but is only reached from sites guarded by "+flag)
						} else {
							r.bad(key, fnName(fn), c.pos(fn.Pos()), "uses i."+field+" without "+flag+" and is called from an unguarded site")
						}
					default:
						r.ok(key, fnName(fn), c.pos(fn.Pos()), fmt.Sprintf("%d use(s) of i.%s, all dominated by %s", len(uses), field, flag))
					}
					_ = oneHitGuard
				}
			}
			// the decoders are created exactly under the flags
			it := c.MustFn("(*PostingsList).iterator")
			for field, flag := range readers {
				key := fnName(it) + "/creates-" + field
				ok := false
				// in iterator() itself or in a helper it calls unconditionally on the iterator
				creators := []*ssa.Function{it}
				for _, sc := range staticCallees(it) {
					if c.inRoot(sc) && sc.Blocks != nil && sc.Signature.Recv() != nil && len(callsOf(sc, "newChunkedIntDecoder")) > 0 {
						creators = append(creators, sc)
					}
				}
				for _, cf := range creators {
					for _, call := range callsOf(cf, "newChunkedIntDecoder") {
						ex := tupleParts(call)[0]
						if ex == nil {
							continue
						}
						for _, ref := range *ex.Referrers() {
							if st, isSt := ref.(*ssa.Store); isSt && exprSig(st.Addr, 0) == "."+field && flagTrueDominates(cf, flag, call.Block()) {
								ok = true
							}
						}
					}
				}
				if ok {
					r.ok(key, fnName(it), c.pos(it.Pos()), "i."+field+" is (re)created when "+flag+" is set")
				} else {
					r.bad(key, fnName(it), c.pos(it.Pos()), "i."+field+" is not created under "+flag)
				}
			}
			if n == 0 {
				r.undecided("no-uses", "", "-", "no decoder uses found")
			}
		},
	})

	register(&Rule{
		Name:  "ITER-END",
		Floor: 3,
		Doc:   "the end of an iteration is sticky and well defined: every return of the 1-hit branch of nextDocNumAtOrAfter leaves docNum1Hit at the consumed sentinel (so nil stays nil); the general branch first tests Actual == nil || !Actual.HasNext(); Count subtracts the excluded intersection (AndCardinality with except / Contains for 1-hit); exclusions are applied by AndNot into a fresh bitmap, never in place",
		Run: func(c *Ctx, scope string, r *Report) {
			fn := c.MustFn("(*PostingsIterator).nextDocNumAtOrAfter")
			key := fnName(fn) + "/one-hit-consumed"
			// region: blocks dominated by normBits1Hit != 0 true edge
			var region *ssa.BasicBlock
			if ifi, ok := fn.Blocks[0].Instrs[len(fn.Blocks[0].Instrs)-1].(*ssa.If); ok {
				if bin, ok := ifi.Cond.(*ssa.BinOp); ok && exprSig(bin.X, 0) == ".normBits1Hit" {
					region = fn.Blocks[0].Succs[0]
					if bin.Op == token.EQL {
						region = fn.Blocks[0].Succs[1]
					}
				}
			}
			if region == nil {
				// the test may sit in a predicate method (is1Hit()): the edge out of the entry
				// block on which the marker is known to be non-zero
				for _, f := range edgePathFacts(fn) {
					if f.nonzero && strings.HasSuffix(f.path, ".normBits1Hit") && len(f.edge.Preds) == 1 && f.edge.Preds[0] == fn.Blocks[0] {
						region = f.edge
					}
				}
			}
			if region == nil {
				r.bad(key, fnName(fn), c.pos(fn.Pos()), "the iterator does not dispatch on normBits1Hit first")
			} else {
				bad, nret := oneHitConsumed(c, fn, region, 0)
				if bad != "" {
					r.bad(key, fnName(fn), c.pos(fn.Pos()), bad)
				} else if nret == 0 {
					r.undecided(key, fnName(fn), c.pos(fn.Pos()), "no return in the 1-hit branch")
				} else {
					r.ok(key, fnName(fn), c.pos(fn.Pos()), fmt.Sprintf("%d returns of the 1-hit branch, each with the hit consumed", nret))
				}
			}
			// the clean fast path walks only `Actual` and replays the freq/norm/location
			// entries of the postings it steps over: exact only when Actual is the
			// list's own bitmap.  ReplaceActual can swap ActualBM at any time, so the
			// only sound guard is the identity test postings.postings == ActualBM
			// (or there being no list at all), however it is spelled.
			key = fnName(fn) + "/clean-path-guard"
			clean := c.MustFn("(*PostingsIterator).nextDocNumAtOrAfterClean")
			for _, site := range c.callsTo(clean) {
				sf := site.Parent()
				names := []string{"postings == nil", "postings.postings == ActualBM"}
				isLoadOf := func(v ssa.Value, suffix string) bool {
					ld, ok := v.(*ssa.UnOp)
					return ok && ld.Op == token.MUL && strings.HasSuffix(accessPath(ld.X), suffix) && strings.Count(accessPath(ld.X), ".") == strings.Count(suffix, ".")
				}
				atoms := func(v ssa.Value) (int, bool, bool) {
					if neg, ok := cmpNilAtom(v, func(x ssa.Value) bool { return isLoadOf(x, ".postings") }); ok {
						return 0, neg, true
					}
					if bin, ok := v.(*ssa.BinOp); ok && (bin.Op == token.EQL || bin.Op == token.NEQ) {
						a, b := bin.X, bin.Y
						if isLoadOf(a, ".ActualBM") {
							a, b = b, a
						}
						if isLoadOf(a, ".postings.postings") && isLoadOf(b, ".ActualBM") {
							return 1, bin.Op == token.NEQ, true
						}
					}
					return 0, false, false
				}
				be := &boolExec{fn: sf, atoms: atoms, n: 2, inline: true}
				ok, cex, n := be.impliedAt(site.Block(), func(asg uint) bool { return asg&1 != 0 || asg&2 != 0 })
				switch {
				case n == 0:
					r.undecided(key, fnName(sf), c.pos(site.Pos()), "the call of the clean path is unreachable in the boolean abstraction")
				case !ok && hoistedCleanFlag(c, site) != nil:
					// the identity test was hoisted into a flag of the iterator: the flag may only be set
					// where the identity holds, and whoever replaces ActualBM has to set it again
					f := hoistedCleanFlag(c, site)
					if why := cleanFlagCoherent(c, f, atoms); why != "" {
						r.bad(key, fnName(sf), c.pos(site.Pos()), "the clean fast path is taken under the flag ."+f.Name()+", and "+why+": after ReplaceActual the postings stepped over in `all` but absent from Actual are not replayed, so frequencies, norms and locations of earlier documents are returned")
					} else {
						r.ok(key, fnName(sf), c.pos(site.Pos()), "clean path under the flag ."+f.Name()+", which is set only where postings == nil || postings.postings == ActualBM and re-established wherever ActualBM is replaced")
					}
				case !ok:
					r.bad(key, fnName(sf), c.pos(site.Pos()), "the clean fast path can be taken when "+describeAsg(names, cex)+": after ReplaceActual the postings stepped over in `all` but absent from Actual are not replayed, so frequencies, norms and locations of earlier documents are returned")
				default:
					r.ok(key, fnName(sf), c.pos(site.Pos()), "clean path only when postings == nil || postings.postings == ActualBM")
				}
			}
			// general branch: every Actual.Next() - in any method of the iterator - happens where
			// Actual.HasNext() is known to hold: tested in the function (inline, as a switch case,
			// inside a predicate such as exhausted()), or by every caller of the helper it is in
			key = fnName(fn) + "/exhausted-guard"
			okGuard := true
			nNext := 0
			where := ""
			for _, f := range c.srcFns {
				if f.Signature.Recv() == nil || f.Parent() != nil {
					continue
				}
				if rn := namedOf(f.Signature.Recv().Type()); rn == nil || rn.Obj().Name() != "PostingsIterator" {
					continue
				}
				for _, b := range f.Blocks {
					for _, ins := range b.Instrs {
						call, ok := ins.(*ssa.Call)
						if !ok || !call.Call.IsInvoke() || call.Call.Method.Name() != "Next" || !strings.HasSuffix(exprSig(call.Call.Value, 0), ".Actual") {
							continue
						}
						nNext++
						p := placeOf(call.Call.Value)
						if p == "" || !c.pathKnownUp(f, p+".HasNext()", true, b, 0) {
							okGuard = false
							where = c.pos(call.Pos()) + " in " + fnName(f)
						}
					}
				}
			}
			if okGuard && nNext > 0 {
				r.ok(key, fnName(fn), c.pos(fn.Pos()), fmt.Sprintf("all %d Actual.Next() calls are behind a HasNext() test", nNext))
			} else if nNext == 0 {
				r.undecided(key, fnName(fn), c.pos(fn.Pos()), "no Actual.Next() call found: the rule's model of the iterator is out of date")
			} else {
				r.bad(key, fnName(fn), c.pos(fn.Pos()), "Actual.Next() can be called on an exhausted cursor ("+where+")")
			}
			// Count
			cnt := c.MustFn("(*PostingsList).Count")
			key = fnName(cnt) + "/subtracts-excluded"
			hasAnd, hasContains, sub := false, false, false
			// (in Count itself or in small predicate helpers of the list it calls, their
			// parameters read as the arguments)
			c.withHelpers(cnt, 1, func(f *ssa.Function, subst map[*ssa.Parameter]ssa.Value) {
				if f != cnt && (f.Signature.Recv() == nil || len(f.Blocks) > 6) {
					return
				}
				for _, b := range f.Blocks {
					for _, ins := range b.Instrs {
						switch x := ins.(type) {
						case *ssa.Call:
							if sc := x.Call.StaticCallee(); sc != nil {
								if sc.Name() == "AndCardinality" && exprSig(x.Call.Args[0], 0) == ".postings" && exprSig(x.Call.Args[1], 0) == ".except" {
									hasAnd = true
								}
								if sc.Name() == "Contains" && exprSig(x.Call.Args[0], 0) == ".except" && strings.Contains(exprSigWith(x.Call.Args[1], 0, subst), ".docNum1Hit") {
									hasContains = true
								}
							}
						case *ssa.BinOp:
							if x.Op == token.SUB && f == cnt {
								sub = true
							}
						}
					}
				}
			})
			if hasAnd && hasContains && sub {
				r.ok(key, fnName(cnt), c.pos(cnt.Pos()), "n - |postings ∩ except| (1-hit: except.Contains(docNum1Hit))")
			} else {
				r.bad(key, fnName(cnt), c.pos(cnt.Pos()), "Count() no longer subtracts the excluded intersection for both encodings")
			}
			// exclusions applied by AndNot into a fresh bitmap
			it := c.MustFn("(*PostingsList).iterator")
			key = fnName(it) + "/except-applied"
			okEx := false
			// in iterator() or in a helper it calls (the function that stores ActualBM)
			var exBlocks []*ssa.BasicBlock
			exBlocks = append(exBlocks, it.Blocks...)
			for _, sc := range staticCallees(it) {
				if c.inRoot(sc) && sc.Blocks != nil {
					exBlocks = append(exBlocks, sc.Blocks...)
				}
			}
			for _, b := range exBlocks {
				for _, ins := range b.Instrs {
					st, ok := ins.(*ssa.Store)
					if !ok || exprSig(st.Addr, 0) != ".ActualBM" {
						continue
					}
					if call, ok := st.Val.(*ssa.Call); ok && call.Call.StaticCallee() != nil && funcFullName(call.Call.StaticCallee()) == roaringPath+".AndNot" {
						if exprSig(call.Call.Args[0], 0) == ".postings" && exprSig(call.Call.Args[1], 0) == ".except" {
							// under except != nil
							for x := b; x != nil; x = x.Idom() {
								idom := x.Idom()
								if idom == nil {
									break
								}
								if ifi, ok := idom.Instrs[len(idom.Instrs)-1].(*ssa.If); ok {
									if bin, ok := ifi.Cond.(*ssa.BinOp); ok && exprSig(bin.X, 0) == ".except" && isNilConst(bin.Y) && ((bin.Op == token.NEQ && idom.Succs[0] == x) || (bin.Op == token.EQL && idom.Succs[1] == x)) {
										okEx = true
									}
								}
							}
						}
					}
				}
			}
			if okEx {
				r.ok(key, fnName(it), c.pos(it.Pos()), "ActualBM = roaring.AndNot(postings, except) when except != nil")
			} else {
				r.bad(key, fnName(it), c.pos(it.Pos()), "the exclusion bitmap is no longer applied as a fresh AndNot(postings, except) under except != nil")
			}
		},
	})
}

func isMaxUint64(v ssa.Value) bool {
	k, ok := v.(*ssa.Const)
	if !ok || k.Value == nil || k.Value.Kind() != constant.Int {
		return false
	}
	u, ok := constant.Uint64Val(k.Value)
	return ok && u == math.MaxUint64
}

// coveredFromEdges: every path from `from` to `to` passes through a block in
// via or along an edge in viaEdge.
func coveredFromEdges(from *ssa.BasicBlock, via map[*ssa.BasicBlock]bool, viaEdge map[[2]*ssa.BasicBlock]bool, to *ssa.BasicBlock) bool {
	seen := map[*ssa.BasicBlock]bool{}
	var dfs func(b *ssa.BasicBlock) bool
	dfs = func(b *ssa.BasicBlock) bool {
		if via[b] || seen[b] {
			return false
		}
		seen[b] = true
		if b == to {
			return true
		}
		for _, s := range b.Succs {
			if viaEdge[[2]*ssa.BasicBlock{b, s}] {
				continue
			}
			if dfs(s) {
				return true
			}
		}
		return false
	}
	return !dfs(from)
}

// coveredFrom: every path from `from` to `to` passes through a block in via.
func coveredFrom(from *ssa.BasicBlock, via map[*ssa.BasicBlock]bool, to *ssa.BasicBlock) bool {
	seen := map[*ssa.BasicBlock]bool{}
	var dfs func(b *ssa.BasicBlock) bool
	dfs = func(b *ssa.BasicBlock) bool {
		if via[b] || seen[b] {
			return false
		}
		seen[b] = true
		if b == to {
			return true
		}
		for _, s := range b.Succs {
			if dfs(s) {
				return true
			}
		}
		return false
	}
	return !dfs(from)
}

// isChunkOfPosting: v is a posting's chunk number — a quotient by the list's
// chunkSize, or a phi all of whose (non-self) edges are such.
func isChunkOfPosting(v ssa.Value, seen map[ssa.Value]bool) bool {
	if seen[v] {
		return true
	}
	seen[v] = true
	switch x := stripConv(v).(type) {
	case *ssa.BinOp:
		return x.Op == token.QUO && strings.HasSuffix(exprSig(stripConv(x.Y), 0), ".chunkSize")
	case *ssa.Call:
		// a helper that returns such a quotient
		sc := x.Call.StaticCallee()
		if sc == nil || sc.Blocks == nil || sc.Signature.Results().Len() != 1 {
			return false
		}
		n := 0
		for _, b := range sc.Blocks {
			if ret, ok := b.Instrs[len(b.Instrs)-1].(*ssa.Return); ok {
				n++
				if !isChunkOfPosting(ret.Results[0], seen) {
					return false
				}
			}
		}
		return n > 0
	case *ssa.Phi:
		for _, e := range x.Edges {
			if e == ssa.Value(x) {
				continue
			}
			if !isChunkOfPosting(e, seen) {
				return false
			}
		}
		return len(x.Edges) > 0
	}
	return false
}

func init() {
	register(&Rule{
		Name:  "REPLAY-COUNT",
		Floor: 1,
		Doc:   "in the skip loop of the clean fast path the number of entries to replay is reset by comparing the chunk of the posting just stepped over with the chunk of the previous posting: both operands of a chunk comparison inside the loop are chunk numbers of postings (quotients by chunkSize, possibly loop-carried), never the chunk the decoders currently hold — which chunk is loaded says nothing about how many entries of the new chunk were stepped over",
		Run: func(c *Ctx, scope string, r *Report) {
			fn := c.MustFn("(*PostingsIterator).nextDocNumAtOrAfterClean")
			key := fnName(fn) + "/reset-compares-postings"
			n := 0
			// (the skip loop may have been extracted into a helper method of the iterator)
			var loopBlocks []*ssa.BasicBlock
			loopBlocks = append(loopBlocks, fn.Blocks...)
			for _, h := range staticCallees(fn) {
				if c.inRoot(h) && h.Blocks != nil && h.Signature.Recv() != nil && types.Identical(h.Signature.Recv().Type(), fn.Signature.Recv().Type()) {
					loopBlocks = append(loopBlocks, h.Blocks...)
				}
			}
			for _, h := range loopBlocks {
				if !isLoopHeader(h) {
					continue
				}
				for b := range loopBody(h) {
					ifi, ok := b.Instrs[len(b.Instrs)-1].(*ssa.If)
					if !ok {
						continue
					}
					bin, ok := ifi.Cond.(*ssa.BinOp)
					if !ok || (bin.Op != token.EQL && bin.Op != token.NEQ) {
						continue
					}
					qx := isChunkOfPosting(bin.X, map[ssa.Value]bool{})
					qy := isChunkOfPosting(bin.Y, map[ssa.Value]bool{})
					if !qx && !qy {
						continue
					}
					n++
					if qx && qy {
						r.ok(key, fnName(fn), c.pos(bin.Pos()), "the reset test compares the chunk numbers of two postings")
					} else {
						other := bin.X
						if qx {
							other = bin.Y
						}
						r.bad(key, fnName(fn), c.pos(bin.Pos()), "inside the skip loop a posting's chunk number is compared with "+exprSig(other, 0)+", which is not the chunk of the previous posting: the entries of a new chunk that were stepped over are not counted, and the decoders return the frequency, norm and locations of an earlier document")
					}
				}
			}
			if n == 0 {
				r.undecided(key, fnName(fn), c.pos(fn.Pos()), "no chunk comparison found in the skip loop of the clean path")
			}
		},
	})
}

func init() {
	register(&Rule{
		Name:  "REUSED-POSTING",
		Floor: 4,
		Doc:   "the Posting an iterator hands out is a field of the iterator that is reused for every call: on every path to a return that hands it out, each of its fields (docNum, freq, norm, locs) was stored in this call — by a whole-struct store or field by field — so nothing of the previous posting (e.g. its locations) is visible through the new one",
		Run: func(c *Ctx, scope string, r *Report) {
			fn := c.MustFn("(*PostingsIterator).nextAtOrAfter")
			st := c.StructOf("Posting")
			targets := map[ssa.Value]bool{}
			for _, b := range fn.Blocks {
				for _, ins := range b.Instrs {
					if fa, ok := ins.(*ssa.FieldAddr); ok && fa.X == ssa.Value(fn.Params[0]) {
						if _, f := fieldAddrInfo(fa); f != nil && namedOf(f.Type()) != nil && namedOf(f.Type()).Obj().Name() == "Posting" {
							targets[fa] = true
						}
					}
				}
			}
			if len(targets) == 0 {
				r.undecided(fnName(fn)+"/posting", fnName(fn), c.pos(fn.Pos()), "the iterator no longer hands out a Posting held in one of its own fields: the rule's model is out of date")
				return
			}
			whole := map[*ssa.BasicBlock]bool{}
			for _, b := range fn.Blocks {
				for _, ins := range b.Instrs {
					if s, ok := ins.(*ssa.Store); ok && targets[s.Addr] {
						whole[b] = true
					}
				}
			}
			ev := fieldEvents(fn, targets)
			// returns that hand the posting out
			var outs []*ssa.BasicBlock
			for _, b := range fn.Blocks {
				ret, ok := b.Instrs[len(b.Instrs)-1].(*ssa.Return)
				if !ok || len(ret.Results) == 0 {
					continue
				}
				v := resolveLoad(ret.Results[0])
				if mi, ok := v.(*ssa.MakeInterface); ok {
					v = mi.X
				}
				if targets[v] {
					outs = append(outs, b)
				}
			}
			if len(outs) == 0 {
				r.undecided(fnName(fn)+"/posting", fnName(fn), c.pos(fn.Pos()), "no return hands out the reused Posting")
				return
			}
			for i := 0; i < st.NumFields(); i++ {
				f := st.Field(i).Name()
				key := fnName(fn) + "/posting." + f
				via := map[*ssa.BasicBlock]bool{}
				for b := range whole {
					via[b] = true
				}
				for _, e := range ev[f] {
					if e.kind == "store" {
						via[e.ins.Block()] = true
					}
				}
				bad := ""
				for _, ob := range outs {
					if !coveredOnAllPaths(fn, via, ob) {
						bad = c.pos(retPos(ob.Instrs[len(ob.Instrs)-1].(*ssa.Return), ob))
					}
				}
				if bad == "" {
					r.ok(key, fnName(fn), c.pos(fn.Pos()), "."+f+" of the reused Posting is stored on every path before it is handed out")
				} else {
					r.bad(key, fnName(fn), c.pos(fn.Pos()), "the reused Posting is handed out at "+bad+" on a path that did not store its ."+f+" in this call: the caller sees the value of the previous posting")
				}
			}
		},
	})
}

func init() {
	register(&Rule{
		Name:  "LOCS-FLAG-AGREE",
		Floor: 2,
		Doc:   "the has-locations bit a writer stores with a posting's frequency (second argument of encodeFreqHasLocs) is the very condition under which that posting's location entries (byte-count prefix and locations) are added to the location stream: the reader consumes location entries exactly for the postings whose bit is set",
		Run: func(c *Ctx, scope string, r *Report) {
			for _, fn := range c.fnsCalling("encodeFreqHasLocs") {
				for _, enc := range callsOf(fn, "encodeFreqHasLocs") {
					key := fnName(fn) + "/has-locs-flag"
					flag := enc.Call.Args[1]
					var tfVal ssa.Value
					for _, add := range callsOf(fn, "(*chunkedIntCoder).Add") {
						for _, v := range varargValues(add.Call.Args[2]) {
							if v == ssa.Value(enc) {
								tfVal = add.Call.Args[0]
							}
						}
					}
					// the bit is computed by the caller and handed in: continue in the (only) caller
					frame := fn
					var self ssa.CallInstruction
					if fp, ok := stripConv(flag).(*ssa.Parameter); ok {
						sites := c.callsTo(fn)
						if len(sites) != 1 {
							r.undecided(key, fnName(fn), c.pos(enc.Pos()), "the has-locations bit is a parameter and the function does not have exactly one caller")
							continue
						}
						self = sites[0]
						frame = self.Parent()
						flag = argFor(self.Common(), fp)
						if tp, ok := tfVal.(*ssa.Parameter); ok {
							tfVal = argFor(self.Common(), tp)
						}
					}
					tfRecv := ""
					if tfVal != nil {
						tfRecv = exprSig(tfVal, 0)
					}
					want := condCanon(flag, true, nil)
					bad := ""
					n := 0
					var visit func(f *ssa.Function, subst map[*ssa.Parameter]ssa.Value, outer string, depth int)
					visit = func(f *ssa.Function, subst map[*ssa.Parameter]ssa.Value, outer string, depth int) {
						for _, b := range f.Blocks {
							for _, ins := range b.Instrs {
								call, ok := ins.(*ssa.Call)
								if !ok || ssa.CallInstruction(call) == self {
									continue
								}
								sc := call.Call.StaticCallee()
								if sc == nil {
									continue
								}
								isAdd := fnName(sc) == "(*chunkedIntCoder).Add" && exprSigWith(call.Call.Args[0], 0, subst) != tfRecv
								var sub map[*ssa.Parameter]ssa.Value
								if !isAdd && depth < 3 && c.inRoot(sc) && sc.Blocks != nil && fnName(sc) != "encodeFreqHasLocs" && len(callsOf(sc, "(*chunkedIntCoder).Add")) > 0 {
									for i, a := range call.Call.Args {
										if strings.HasSuffix(a.Type().String(), ".chunkedIntCoder") && exprSigWith(a, 0, subst) != tfRecv && i < len(sc.Params) {
											sub = map[*ssa.Parameter]ssa.Value{}
										}
									}
									if sub != nil {
										for i, a := range call.Call.Args {
											if i < len(sc.Params) {
												sub[sc.Params[i]] = a
											}
										}
									}
								}
								if !isAdd && sub == nil {
									continue
								}
								g := outer
								if g == "" {
									var ref ssa.Instruction = enc
									if self != nil {
										ref = self
									}
									g = guardCanon(call, subst, ref)
								}
								if sub != nil && g == "" {
									visit(sc, sub, "", depth+1)
									continue
								}
								n++
								switch {
								case g == "":
									bad = "the location entries at " + c.pos(call.Pos()) + " are written unconditionally while the has-locations bit is " + want
								case g != want:
									bad = "the has-locations bit is " + want + " but the location entries at " + c.pos(call.Pos()) + " are written under " + g + ": a posting whose bit and entries disagree makes the reader decode or skip the wrong bytes"
								}
							}
						}
					}
					visit(frame, nil, "", 0)
					switch {
					case n == 0:
						r.undecided(key, fnName(fn), c.pos(enc.Pos()), "cannot find where this writer adds the posting's locations")
					case bad != "":
						r.bad(key, fnName(fn), c.pos(enc.Pos()), bad)
					default:
						r.ok(key, fnName(fn), c.pos(enc.Pos()), "bit and location entries are both governed by "+want)
					}
				}
			}
		},
	})
}

// condCanon renders a branch condition (taken with polarity pol) so that the
// spellings of "this count is not zero" agree: len(x) > 0, len(x) != 0,
// !(len(x) == 0), n > 0 …  Parameters in subst are replaced by call arguments.
func condCanon(v ssa.Value, pol bool, subst map[*ssa.Parameter]ssa.Value) string {
	for {
		u, ok := v.(*ssa.UnOp)
		if !ok || u.Op != token.NOT {
			break
		}
		v, pol = u.X, !pol
	}
	if p, ok := v.(*ssa.Parameter); ok && subst[p] != nil {
		return condCanon(subst[p], pol, nil)
	}
	if bin, ok := v.(*ssa.BinOp); ok {
		x, y, op := bin.X, bin.Y, bin.Op
		if isZeroConst(x) {
			x, y = y, x
			switch op {
			case token.LSS:
				op = token.GTR
			case token.GEQ:
				op = token.LEQ
			}
		}
		if isZeroConst(y) {
			switch op {
			case token.GTR, token.NEQ:
				return polStr(pol) + "nonzero(" + exprSigWith(x, 0, subst) + ")"
			case token.EQL, token.LEQ:
				return polStr(!pol) + "nonzero(" + exprSigWith(x, 0, subst) + ")"
			}
		}
	}
	return polStr(pol) + exprSigWith(v, 0, subst)
}

func polStr(pol bool) string {
	if pol {
		return ""
	}
	return "!"
}

func isZeroConst(v ssa.Value) bool {
	k, ok := stripConv(v).(*ssa.Const)
	if !ok || k.Value == nil {
		return false
	}
	n, ok := constant.Int64Val(constant.ToInt(k.Value))
	return ok && n == 0 && k.Value.Kind() != constant.Bool
}

// guardCanon: the condition under which the instruction executes - the
// closest dominating branch that is neither a loop condition nor an error
// check nor a branch that governs ref as well - in condCanon form; "" when
// there is none.
func guardCanon(ins ssa.Instruction, subst map[*ssa.Parameter]ssa.Value, ref ssa.Instruction) string {
	for b := ins.Block(); b != nil; b = b.Idom() {
		idom := b.Idom()
		if idom == nil {
			return ""
		}
		ifi, ok := idom.Instrs[len(idom.Instrs)-1].(*ssa.If)
		if !ok || len(b.Preds) != 1 {
			continue
		}
		pol := idom.Succs[0] == b
		if !pol && idom.Succs[1] != b {
			continue
		}
		if isLoopHeader(idom) {
			continue
		}
		if ref != nil && ref.Parent() == b.Parent() && (b == ref.Block() || b.Dominates(ref.Block())) {
			continue // governs the reference site as well: not what distinguishes the two
		}
		if bin, ok := ifi.Cond.(*ssa.BinOp); ok && (isNilConst(bin.X) || isNilConst(bin.Y)) {
			o := bin.X
			if isNilConst(o) {
				o = bin.Y
			}
			if o.Type().String() == "error" {
				continue
			}
		}
		return condCanon(ifi.Cond, pol, subst)
	}
	return ""
}

// hoistedCleanFlag: the call is governed by the true edge of a test of a bool
// field of the iterator: that field.
func hoistedCleanFlag(c *Ctx, site ssa.CallInstruction) *types.Var {
	for b := site.Block(); b != nil; b = b.Idom() {
		idom := b.Idom()
		if idom == nil {
			return nil
		}
		ifi, ok := idom.Instrs[len(idom.Instrs)-1].(*ssa.If)
		if !ok || idom.Succs[0] != b || len(b.Preds) != 1 {
			continue
		}
		ld, ok := ifi.Cond.(*ssa.UnOp)
		if !ok || ld.Op != token.MUL {
			continue
		}
		fa, ok := ld.X.(*ssa.FieldAddr)
		if !ok {
			continue
		}
		owner, f := fieldAddrInfo(fa)
		if owner != nil && owner.Obj().Name() == "PostingsIterator" && f != nil && f.Type().String() == "bool" {
			return f
		}
	}
	return nil
}

// cleanFlagCoherent: "" when flag f of the iterator can be true only while
// ActualBM is the list's own bitmap (or there is no list):
//   - every store to f stores false, or true next to a store of a list's
//     .postings into ActualBM, or the value of the identity test itself
//     (a || b lowered to a phi) taken against the bitmap stored in the same function;
//   - every function outside the iterator's construction that stores ActualBM
//     stores f on every path from there to its returns.
func cleanFlagCoherent(c *Ctx, f *types.Var, atoms func(ssa.Value) (int, bool, bool)) string {
	pi := c.NamedType("PostingsIterator").Obj()
	abmStores := c.census().fieldStores[fieldKey{pi, "ActualBM"}]
	storedBM := func(fn *ssa.Function) []ssa.Value {
		var out []ssa.Value
		for _, st := range abmStores {
			if st.fn == fn {
				out = append(out, st.val)
			}
		}
		return out
	}
	isIdentity := func(v ssa.Value, fn *ssa.Function) bool {
		if k, neg, ok := atoms(v); ok && !neg {
			_ = k
			return true
		}
		// postings.postings == <the bitmap this function stores into ActualBM>
		if bin, ok := v.(*ssa.BinOp); ok && bin.Op == token.EQL {
			for _, bm := range storedBM(fn) {
				a, b := bin.X, bin.Y
				if a == bm {
					a, b = b, a
				}
				if ld, ok := a.(*ssa.UnOp); ok && b == bm && strings.HasSuffix(accessPath(ld.X), ".postings.postings") {
					return true
				}
			}
		}
		return false
	}
	for _, st := range c.census().fieldStores[fieldKey{pi, f.Name()}] {
		v := st.val
		if k, ok := v.(*ssa.Const); ok {
			if k.Value != nil && k.Value.String() == "false" {
				continue
			}
			// true: next to ActualBM = <list>.postings
			okTrue := false
			for _, ab := range abmStores {
				if ab.fn == st.fn && ab.ins.Block() == st.ins.Block() {
					if ld, ok := ab.val.(*ssa.UnOp); ok && strings.HasSuffix(accessPath(ld.X), ".postings") {
						okTrue = true
					}
				}
			}
			if !okTrue {
				return "it is set at " + c.pos(st.ins.Pos()) + " where ActualBM is not (evidently) the list's own bitmap"
			}
			continue
		}
		okExpr := isIdentity(v, st.fn)
		if phi, ok := v.(*ssa.Phi); ok {
			okExpr = true
			for i, e := range phi.Edges {
				pred := phi.Block().Preds[i]
				if k, isK := e.(*ssa.Const); isK {
					if k.Value != nil && k.Value.String() == "false" {
						continue
					}
					// true through the true edge of an identity/no-list test
					ifi, isIf := pred.Instrs[len(pred.Instrs)-1].(*ssa.If)
					if !isIf || pred.Succs[0] != phi.Block() || !isIdentity(ifi.Cond, st.fn) {
						okExpr = false
					}
					continue
				}
				if !isIdentity(e, st.fn) {
					okExpr = false
				}
			}
		}
		if !okExpr {
			return "the value it is given at " + c.pos(st.ins.Pos()) + " is not the test postings == nil || postings.postings == ActualBM"
		}
	}
	// replacements of ActualBM outside construction
	ctor := map[*ssa.Function]bool{}
	if it := c.byName["(*PostingsList).iterator"]; it != nil {
		ctor[it] = true
		for _, h := range staticCallees(it) {
			ctor[h] = true
			for _, h2 := range staticCallees(h) {
				ctor[h2] = true
			}
		}
	}
	fStoreBlocks := map[*ssa.Function]map[*ssa.BasicBlock]bool{}
	for _, st := range c.census().fieldStores[fieldKey{pi, f.Name()}] {
		if fStoreBlocks[st.fn] == nil {
			fStoreBlocks[st.fn] = map[*ssa.BasicBlock]bool{}
		}
		fStoreBlocks[st.fn][st.ins.Block()] = true
	}
	for _, ab := range abmStores {
		if ctor[ab.fn] {
			continue
		}
		via := fStoreBlocks[ab.fn]
		if via[ab.ins.Block()] {
			continue
		}
		seen := map[*ssa.BasicBlock]bool{}
		var escapes func(b *ssa.BasicBlock) bool
		escapes = func(b *ssa.BasicBlock) bool {
			if seen[b] || via[b] {
				return false
			}
			seen[b] = true
			if len(b.Succs) == 0 {
				return true
			}
			for _, s := range b.Succs {
				if escapes(s) {
					return true
				}
			}
			return false
		}
		start := ab.ins.Block()
		leaks := len(start.Succs) == 0
		for _, s := range start.Succs {
			if escapes(s) {
				leaks = true
			}
		}
		if leaks {
			return fnName(ab.fn) + " replaces ActualBM at " + c.pos(ab.ins.Pos()) + " and leaves the flag as it was"
		}
	}
	return ""
}

// boolValueUnder evaluates a boolean SSA value under an assignment of atoms
// (bool parameters and bool places, numbered on first sight): constants, !x,
// and the value form of || / && (a phi fed by constant edges from the blocks
// that decided early).
func boolValueUnder(v ssa.Value, atoms map[string]int, asg uint, depth int) tri {
	if depth > 8 {
		return triUnknown
	}
	atom := func(key string) tri {
		i, ok := atoms[key]
		if !ok {
			if len(atoms) >= 10 {
				return triUnknown
			}
			i = len(atoms)
			atoms[key] = i
		}
		if asg&(1<<uint(i)) != 0 {
			return triTrue
		}
		return triFalse
	}
	switch x := v.(type) {
	case *ssa.Const:
		if x.Value != nil && x.Value.Kind() == constant.Bool {
			if constant.BoolVal(x.Value) {
				return triTrue
			}
			return triFalse
		}
	case *ssa.Parameter:
		return atom("param:" + x.Name())
	case *ssa.UnOp:
		if x.Op == token.NOT {
			return triNot(boolValueUnder(x.X, atoms, asg, depth+1))
		}
		if x.Op == token.MUL {
			if p := placeOf(x); p != "" {
				return atom("place:" + p)
			}
		}
	case *ssa.Phi:
		var early []int
		var last ssa.Value
		kind := -1
		for k, e := range x.Edges {
			if c, isC := e.(*ssa.Const); isC && c.Value != nil && c.Value.Kind() == constant.Bool {
				vv := 0
				if constant.BoolVal(c.Value) {
					vv = 1
				}
				if kind != -1 && kind != vv {
					return triUnknown
				}
				kind = vv
				early = append(early, k)
			} else if last == nil {
				last = e
			} else {
				return triUnknown
			}
		}
		if last == nil || kind == -1 {
			return triUnknown
		}
		// || : true if any early operand is true, else the last; && : false if any early operand is false
		res := boolValueUnder(last, atoms, asg, depth+1)
		for _, k := range early {
			p := x.Block().Preds[k]
			ifi, ok := p.Instrs[len(p.Instrs)-1].(*ssa.If)
			if !ok {
				return triUnknown
			}
			op := boolValueUnder(ifi.Cond, atoms, asg, depth+1)
			if kind == 1 { // ||
				switch {
				case op == triTrue || res == triTrue:
					res = triTrue
				case op == triUnknown || res == triUnknown:
					res = triUnknown
				default:
					res = triFalse
				}
			} else { // &&
				switch {
				case op == triFalse || res == triFalse:
					res = triFalse
				case op == triUnknown || res == triUnknown:
					res = triUnknown
				default:
					res = triTrue
				}
			}
		}
		return res
	}
	return triUnknown
}

func init() {
	register(&Rule{
		Name:   "LOCS-IMPLY-FREQNORM",
		ZeroOK: true, // how the two flags are set is a matter of style (separate stores, a struct literal); the controls keep the matcher alive
		Doc:    "the has-locations bit of a posting lives in the freq/norm stream: an iterator that is to deliver locations has to read freq/norm entries as well. Wherever the two decoder flags of an iterator are set together (two stores to the same object, or two fields of one struct literal), the freq/norm flag is true whenever the location flag is: checked by truth table over the boolean parameters and places the two stored values are built from (||, &&, ! in their value form)",
		Run: func(c *Ctx, scope string, r *Report) {
			c.deriveReaderFlags()
			leaf := func(flag, dflt string) string {
				s := readerFlagSuffix[flag]
				if s == "" {
					return dflt
				}
				return s[strings.LastIndex(s, ".")+1:]
			}
			fnLeaf, locLeaf := leaf("includeFreqNorm", "includeFreqNorm"), leaf("includeLocs", "includeLocs")
			for _, fn := range c.srcFns {
				type pair struct{ fnv, loc *ssa.Store }
				byBase := map[ssa.Value]*pair{}
				var order []ssa.Value
				for _, b := range fn.Blocks {
					for _, ins := range b.Instrs {
						st, ok := ins.(*ssa.Store)
						if !ok {
							continue
						}
						fa, ok := st.Addr.(*ssa.FieldAddr)
						if !ok {
							continue
						}
						_, fv := fieldAddrInfo(fa)
						if fv == nil || !isBoolType(fv.Type()) || (fv.Name() != fnLeaf && fv.Name() != locLeaf) {
							continue
						}
						p := byBase[fa.X]
						if p == nil {
							p = &pair{}
							byBase[fa.X] = p
							order = append(order, fa.X)
						}
						if fv.Name() == fnLeaf {
							p.fnv = st
						} else {
							p.loc = st
						}
					}
				}
				for _, base := range order {
					p := byBase[base]
					if p.fnv == nil || p.loc == nil {
						continue
					}
					key := fnName(fn) + "/locs=>freqnorm"
					atoms := map[string]int{}
					// number the atoms first
					boolValueUnder(p.fnv.Val, atoms, 0, 0)
					boolValueUnder(p.loc.Val, atoms, 0, 0)
					bad, unknown := "", false
					for asg := uint(0); asg < 1<<uint(len(atoms)); asg++ {
						l := boolValueUnder(p.loc.Val, atoms, asg, 0)
						f := boolValueUnder(p.fnv.Val, atoms, asg, 0)
						if l == triUnknown || f == triUnknown {
							unknown = true
							continue
						}
						if l == triTrue && f == triFalse {
							var on []string
							for name, i := range atoms {
								if asg&(1<<uint(i)) != 0 {
									on = append(on, name)
								}
							}
							sort.Strings(on)
							bad = strings.Join(on, ", ")
						}
					}
					switch {
					case bad != "":
						r.bad(key, fnName(fn), c.pos(p.fnv.Pos()), "with {"+bad+"} set the iterator is told to deliver locations but not to read freq/norm entries: the has-locations bit is never read and no location is delivered")
					case unknown:
						r.undecided(key, fnName(fn), c.pos(p.fnv.Pos()), "cannot evaluate the two flag values")
					default:
						r.ok(key, fnName(fn), c.pos(p.fnv.Pos()), fmt.Sprintf("the freq/norm flag is true whenever the location flag is (%d assignments)", 1<<uint(len(atoms))))
					}
				}
			}
		},
	})
}
